//! Kani proof harnesses (checked decoders: totality, bounds).
#![allow(unused)]

#[cfg(kani)]
mod harnesses {
    use dusk_plonk::prelude::*;

    /// CommitKey::from_raw_var_bytes on an arbitrary buffer holding at most one point.
    #[kani::proof]
    #[kani::unwind(14)]
    fn commit_key_from_raw_var_bytes_one_point() {
        let bytes: [u8; 8 + 97] = kani::any();
        let len: usize = kani::any();
        kani::assume(len <= 8 + 97);
        let r = dusk_plonk::verif::commit_key_from_raw_var_bytes(&bytes[..len]);
        kani::cover!(r.is_err());
    }
}
