//! Kani proof harnesses (engine K): the checked decoders are total (no panic, no
//! overflow, no out-of-bounds access, loops bounded) on every byte string up to the
//! stated length.  The curve/field kernels of the dependency run as contract bodies
//! (see vendor/dusk-bls12_381-sym, `cfg(kani)`).
#![allow(unused)]

#[cfg(kani)]
mod harnesses {
    use dusk_bytes::{DeserializableSlice, Serializable};
    use dusk_plonk::prelude::*;
    use dusk_plonk::verif as hk;

    /// arbitrary prefix of an arbitrary buffer
    macro_rules! arbitrary_slice {
        ($n:expr) => {{
            let bytes: [u8; $n] = kani::any();
            let len: usize = kani::any();
            kani::assume(len <= $n);
            (bytes, len)
        }};
    }

    /// CommitKey::from_raw_var_bytes (used by Prover::try_from_bytes): <= 1 raw point.
    #[kani::proof]
    #[kani::unwind(14)]
    fn commit_key_from_raw_var_bytes_one_point() {
        let (bytes, len) = arbitrary_slice!(8 + 97);
        let r = hk::commit_key_from_raw_var_bytes(&bytes[..len]);
        kani::cover!(r.is_err());
        kani::cover!(r.is_ok());
    }

    /// CommitKey::from_slice (used by PublicParameters::from_slice): <= 2 compressed points.
    #[kani::proof]
    #[kani::unwind(4)]
    fn commit_key_from_slice_two_points() {
        let (bytes, len) = arbitrary_slice!(2 * 48 + 5);
        let r = hk::commit_key_from_slice(&bytes[..len]);
        kani::cover!(r.is_err());
        kani::cover!(r.is_ok());
    }

    /// OpeningKey::from_slice: 240 bytes (+ slack), identity points must be rejected.
    #[kani::proof]
    #[kani::unwind(4)]
    fn opening_key_from_slice() {
        let (bytes, len) = arbitrary_slice!(244);
        let r = hk::opening_key_from_slice(&bytes[..len]);
        if let Ok(k) = &r {
            let (g, h, xh) = hk::opening_key_parts(k);
            assert!(!bool::from(g.is_identity()));
            assert!(!bool::from(h.is_identity()));
            assert!(!bool::from(xh.is_identity()));
        }
        kani::cover!(r.is_err());
        kani::cover!(r.is_ok());
    }

    /// Proof::from_bytes: all 1008-byte strings.
    #[kani::proof]
    #[kani::unwind(1010)]
    fn proof_from_bytes() {
        let bytes: [u8; Proof::SIZE] = kani::any();
        let r = Proof::from_bytes(&bytes);
        // canonicity (C16): whatever the decoder accepts re-encodes to the same 1008 bytes.  The
        // component codecs of the dependency are exact under the contract bodies (scalars: the real
        // canonicity comparison; points: accepted only on their canonical encoding), so a failure
        // here is an acceptance added by the proof / commitment / evaluation decoders themselves.
        #[cfg(kani_canonical_points)]
        if let Ok(p) = &r {
            assert!(p.to_bytes() == bytes);
        }
        kani::cover!(r.is_err());
        kani::cover!(r.is_ok());
    }

    /// Polynomial::from_slice and Evaluations::from_slice: <= 2 scalars (+ slack).
    #[kani::proof]
    #[kani::unwind(5)]
    fn polynomial_from_slice() {
        let (bytes, len) = arbitrary_slice!(2 * 32 + 3);
        let r = hk::polynomial_from_slice(&bytes[..len]);
        if let Ok(n) = r {
            assert!(n <= len / 32);
        }
        kani::cover!(r.is_ok());
    }

    #[kani::proof]
    #[kani::unwind(34)]
    fn evaluations_from_slice() {
        let (bytes, len) = arbitrary_slice!(172 + 2 * 32 + 3);
        let r = hk::evaluations_from_slice(&bytes[..len]);
        if let Ok(n) = r {
            assert!(n <= len / 32);
        }
        kani::cover!(r.is_err());
    }

    /// Prover::try_from_bytes / Verifier::try_from_bytes: header arithmetic on arbitrary
    /// 56-byte strings (every length field arbitrary: overflow, truncation).
    #[kani::proof]
    #[kani::unwind(9)]
    fn prover_try_from_bytes_header() {
        let (bytes, len) = arbitrary_slice!(56);
        let r = Prover::try_from_bytes(&bytes[..len]);
        kani::cover!(r.is_err());
    }

    #[kani::proof]
    #[kani::unwind(9)]
    fn verifier_try_from_bytes_header() {
        let (bytes, len) = arbitrary_slice!(56);
        let r = Verifier::try_from_bytes(&bytes[..len]);
        kani::cover!(r.is_err());
    }
}
