#!/bin/bash
# Build the verification drivers from files on disk only (offline).
set -e
cd "$(dirname "$0")"
export CARGO_NET_OFFLINE=true
for w in sym real; do
  [ -f $w/Cargo.lock ] || cp /repo/Cargo.lock $w/Cargo.lock
  (cd $w && cargo build --offline -q 2>&1 | grep -v "^warning\|^ *|\|^ *=\|^ *-->\|^$" | tail -5 || true)
done
test -x .cache/sym/debug/symdrv && test -x .cache/real/debug/realdrv && echo "setup ok"
