#!/bin/bash
# confirm_mutant.sh <name> <patch.diff> <demo.rs> <placement: tests/<file>.rs | lib:<src file to append to>> <test filter>
# Confirms in a scratch worktree (outside /repo and /verif): the demo passes without the patch,
# fails with it, and the existing suite passes with the patch.  Writes <name>.confirm.log next to the patch.
set -u
NAME=$1; PATCH=$(realpath $2); DEMO=$(realpath $3); PLACE=$4; FILTER=$5
WT=/tmp/confirm_$NAME
LOG=$(dirname $PATCH)/confirm.log
rm -rf $WT; git -C /repo worktree prune; git -C /repo worktree add -q --detach $WT HEAD || exit 3
cd $WT
place_demo() {
  case "$PLACE" in
    lib:*) cat "$DEMO" >> "${PLACE#lib:}";;
    snd:*) cp "$DEMO" "src/composer/tests/soundness/${PLACE#snd:}.rs"; echo "mod ${PLACE#snd:};" >> src/composer/tests/soundness.rs;;
    *) cp "$DEMO" "$PLACE";;
  esac
}
run_demo() {
  case "$PLACE" in
    lib:*|snd:*) cargo test --offline --lib "$FILTER" 2>&1 | grep -E "^test result|FAILED|panicked" | head -5;;
    *) cargo test --offline --test "$(basename ${PLACE%.rs})" 2>&1 | grep -E "^test result|FAILED|panicked" | head -5;;
  esac
}
{
echo "== demo on the unmodified tree (expect ok)"
place_demo; run_demo
git checkout -q -- . ; git clean -fdq tests src 2>/dev/null
echo "== existing suite with the patch (expect all ok)"
git apply "$PATCH" || echo "PATCH DOES NOT APPLY"
cargo test --workspace --offline --no-fail-fast 2>&1 | grep "^test result" | awk '{p+=$4; f+=$6} END {print "passed",p,"failed",f}'
echo "== demo with the patch (expect FAILED)"
place_demo; run_demo
} > $LOG 2>&1
cd /; git -C /repo worktree remove --force $WT
cat $LOG
