#!/bin/bash
# run_wave.sh "<mutant>:<ID>[,<ID>...]" ...: like run_against.sh for several seeded changes, with one
# rebuild from the restored tree at the end.  Log: /verif/out/wave.log
cd /repo || exit 3
if [ -n "$(git status --porcelain --untracked-files=no)" ]; then echo "/repo is dirty"; exit 3; fi
rm -rf /verif/out/evidence.keep; cp -r /verif/evidence /verif/out/evidence.keep
for spec in "$@"; do
  mut=${spec%%:*}; ids=${spec##*:}
  git -C /repo apply /verif/seeded/$mut/patch.diff || { echo "$mut: patch does not apply"; continue; }
  for id in ${ids//,/ }; do
    (cd /verif && ./check $id --tier quick 2>&1 | grep -E "^VIOLATION|^KNOWN|^INCONCLUSIVE|obligations=" | cut -c1-260 | tail -4 | sed "s/^/[$mut $id] /")
    echo "[$mut $id] rc=${PIPESTATUS[0]}"
  done
  git -C /repo checkout -- .
done
rm -rf /verif/evidence; mv /verif/out/evidence.keep /verif/evidence
(cd /verif && ./setup.sh > /verif/out/setup_after_run_against.log 2>&1) || echo "rebuild after restore failed"
echo WAVE-DONE
