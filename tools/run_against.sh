#!/bin/bash
# run_against.sh <patch.diff> <ID> [<ID>...]: apply a seeded change to /repo, run the quick checks, undo it.
PATCH=$(realpath $1); shift
cd /repo || exit 3
if [ -n "$(git status --porcelain --untracked-files=no)" ]; then echo "/repo is dirty"; exit 3; fi
git apply "$PATCH" || { echo "patch does not apply"; exit 3; }
cd /verif
# evidence files are rewritten by every run: keep the clean-tree evidence and put it back afterwards
rm -rf /verif/out/evidence.keep; cp -r /verif/evidence /verif/out/evidence.keep
for id in "$@"; do
  ./check $id --tier quick 2>&1 | grep -E "^VIOLATION|^KNOWN|^INCONCLUSIVE|obligations=" | cut -c1-220 | tail -4
  echo "rc[$id]=${PIPESTATUS[0]}"
done
git -C /repo checkout -- .
rm -rf /verif/evidence; mv /verif/out/evidence.keep /verif/evidence
# the driver binaries were built from the changed tree: rebuild them from the restored one, so that a
# later `--no-build` run cannot pick up a stale binary
(cd /verif && ./setup.sh > /verif/out/setup_after_run_against.log 2>&1) || echo "rebuild after restore failed"
