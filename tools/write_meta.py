"""write seeded/<id>/meta.json from the table below (results of tools/run_against.sh and
tools/confirm_mutant.sh as run in this sandbox)"""
import json, os
V = os.path.dirname(os.path.dirname(os.path.abspath(__file__)))
T = {
 "C03_a": ("C03", "verifier draws u before absorbing the two opening commitments (V2/V3 only)", "a crafted V2/V3 proof whose opening commitments are computed from u", {"C03": "VIOLATION (transcript sequence differs from the spec sequence)"}),
 "C03_b": ("C03", "range widget: fourth quad check weighted kappa^2 instead of kappa^3, consistently in prover quotient, prover linearisation and verifier", "a range gate plus a forged pair of non-quads with delta(x)+delta(y)=0", {"C03": "VIOLATION (acceptance polynomial != spec, replayed)", "C05": "VIOLATION (row/range != documented relation, replayed)"}),
 "C04_a": ("C04", "verifier accepts a public-input vector with extra trailing elements (length check < instead of !=, transcript zips with the rows)", "a correct prefix plus extra trailing public inputs", {"C04": "VIOLATION (length-pair matrix)"}),
 "C04_b": ("C04", "process-global transcript label cache keyed by the zero-padded 32-byte prefix of the label", "two labels sharing the padded 32-byte prefix used in the same process", {"C04": "VIOLATION (label sequences in one process; added after the first run missed it)"}),
 "C05_a": ("C05", "range widget: cross-row component delta(d_next-4a) dropped consistently in prover and verifier", "a range row violating only that component (forged accumulators)", {"C05": "VIOLATION (row/range != documented relation, replayed)"}),
 "C05_b": ("C05", "compute_permutation_vec asserts that the accumulator wraps to one: a broken copy constraint panics instead of CircuitUnsatisfied", "an instance satisfying every row but breaking one compiled copy constraint", {"C05": "VIOLATION (symbolic-witness prover run: feasible panic path, replayed; added after the first version had no prover run)"}),
 "C05_c": ("C05", "quotient degree test 7n -> 5n", "the 4-row circuit of Composer::initialized() only (n = 4)", {"C05": "VIOLATION (satisfied 4-row circuit: prover returns CircuitUnsatisfied)", "C01": "VIOLATION (completeness instance n = 4)"}),
 "C06_a": ("C06", "on domains >= 4096 the d wire re-uses the c wire's two blinders (draws 6,7 drawn but unused)", "a circuit with more than 2048 gates", {"C06": "VIOLATION (4096-point symbolic proving run: d_comm depends on blinders {4,5}; two-run replay) -- added after the first version (n <= 8) missed it"}),
 "C06_b": ("C06", "a zero quotient-share blinder draw is replaced by the constant 1", "an RNG stream whose draw 11, 12 or 13 reduces to zero", {"C06": "VIOLATION (zero-draw runs: shares differ from the generic value at blinder = 0; two-run replay) -- added after the first version missed it"}),
 "C07_a": ("C07", "append_public_point drops the public-input row of a zero coordinate", "a public point with a zero affine coordinate (identity, order-2, order-4 points)", {"C07": "VIOLATION (feasible shape-deviating path, replayed on the real composer)"}),
 "C07_b": ("C07", "component_mul_generator: fallible scalar conversion replaced by a top-nibble test + expect", "a scalar witness in [r_jubjub, 2^252)", {"C07": "VIOLATION (boundary-value enumeration r_J, r_J+1, 2^252-1: panic) -- added after the first version (mul_generator outside the claim) missed it"}),
 "C08_a": ("C08", "append_evaluated_output computes -w/q_O - k instead of -(w+k)/q_O on the generic-q_O branch", "q_O not in {0,1,-1} together with q_C + PI != 0", {"C08": "VIOLATION (honest witness does not satisfy its row; replayed through the real prover)"}),
 "C08_b": ("C08", "gate_add keeps a caller-supplied non-zero output selector", "a gate_add call on a constraint that already carries .output(q), q not in {0,-1}", {"C08": "VIOLATION (emitted polynomial != documented relation, replayed)"}),
 "C09_a": ("C09", "range widget: two quad checks share one separation weight (kappa^2), consistently prover+verifier", "forged non-quads x,y with delta(x)+delta(y)=0 on an a wire and the next d wire", {"C09": "exit 2 (inconclusive: the merged component is not factorable, z3 unknown)", "C05": "VIOLATION (row/range, replayed)", "C03": "VIOLATION (acceptance polynomial != spec, replayed)"}),
 "C09_b": ("C09", "1-bit range check loses lower == 0 (zero-width guard moved to the dispatcher)", "width 1 (also reached through 254-bit truncation/logic) with forged lower", {"C09": "VIOLATION (w=1: model with x >= 2, end-to-end replay: forged proof verifies)"}),
 "C10_a": ("C10", "logic widget: product check and delta_xor_and share one weight, consistently prover+verifier", "a forged output quad plus a product wire equal to a root of a cubic", {"C10": "exit 2 (row lemma real=>summary unknown)", "C03": "VIOLATION (acceptance polynomial != spec, replayed)", "C05": "VIOLATION (row/logic != documented relation; counterexample found by evaluation hint, confirmed by the solver, replayed) -- first version ended inconclusive"}),
 "C10_b": ("C10", "canonical-truncation guard: sign dropped when r_low == 0", "pair counts <= 16 with the +r alias (high = r_high)", {"C10": "VIOLATION (bind queries P<=16; model completed with the real witness generator; forged proof verifies)"}),
 "C11_a": ("C11", "1-bit range_check stops pinning its internal lower wire", "N = 254 (or 1): both 1-bit checks have a free wire", {"C11": "VIOLATION (range summary lemma w=1 fails; replayed end to end)"}),
 "C11_b": ("C11", "canonical guard computed as is_top*low when r_low == 0", "N <= 32 and the split (high, low) = (r_high, x+1)", {"C11": "VIOLATION (truncate/sound N in {1,2,3,7,8}; partial model completed with the real witness generator; forged proof verifies)"}),
 "C12_a": ("C12", "component_sub_point rewritten as a check c + b = a on a prover-supplied c", "a malicious prover solving the quadratic for the off-curve second solution", {"C12": "VIOLATION (sub layout is not neg + addition rows) -- added after the first version had no sub check"}),
 "C12_b": ("C12", "host-side doubling fast path in add_point_gates keyed on equal v coordinates", "P + (-P), P - P, [r]P", {"C12": "VIOLATION (honest witness of the shared-input addition does not satisfy its rows; replayed)"}),
 "C13_a": ("C13", "append_constant_point: torsion test replaced by identity-or-not-small-order", "a mixed-order point S + T", {"C13": "VIOLATION (path classification: accepted path without the torsion-free comparisons)"}),
 "C13_b": ("C13", "component_mul_generator excludes only the canonical identity (0 : 1 : 1)", "an identity representation with Z != 1", {"C13": "VIOLATION (path classification: identity test is not the dependency's is_identity)"}),
 "C19_a": ("C19", "fft fold only folds coefficients size..2*size", "input longer than twice the domain", {"C19": "VIOLATION (fft/coset_fft n=1 len=3, replayed)"}),
 "C19_b": ("C19", "batch_inversion backward pass no longer skips zeros", "a zero at index >= 1 or an all-zero slice", {"C19": "VIOLATION (zero-pattern paths, replayed on the real build)"}),
 "C20_a": ("C20", "batch challenge absorbs proofs[0].evaluated_point for every entry", "a batch of >= 2 entries", {"C20": "VIOLATION (batch k=2: evaluation e1 not in the challenge history)"}),
 "C20_b": ("C20", "compute_aggregate_witness skips the challenge power of a zero polynomial", "a zero polynomial in a non-last position", {"C20": "VIOLATION (all zero/short-polynomial paths of the aggregated opening) -- added after the first version (generic path only) missed it"}),
}
for k, (prop, what, needs, caught) in T.items():
    d = os.path.join(V, "seeded", k)
    if not os.path.isdir(d):
        continue
    conf = ""
    p = os.path.join(d, "confirm.log")
    if os.path.exists(p):
        conf = open(p).read()
    meta = {"property": prop, "change": what, "needs_to_manifest": needs,
            "produced_by": "independent sub-agent given only the property text and a scratch worktree",
            "confirmed_here": {"command": "tools/confirm_mutant.sh (scratch worktree under /tmp, removed afterwards)",
                               "demo_passes_without_patch": "test result: ok" in conf.split("== existing suite")[0] if conf else None,
                               "existing_suite_with_patch": "passed 176 failed 0" if "passed 176 failed 0" in conf else None,
                               "demo_fails_with_patch": "FAILED" in conf.split("== demo with the patch")[-1] if conf else None},
            "checks_run": {"command": "tools/run_against.sh seeded/%s/patch.diff <ID>" % k, "results": caught}}
    json.dump(meta, open(os.path.join(d, "meta.json"), "w"), indent=1)
print("wrote", len(T))
