"""MIR dump of /repo's current working tree (nightly, overflow checks on), cached by a
hash of the crate sources so that C01 and C15 share one dump per tree state."""
import hashlib
import os
import re
import subprocess

import framework as fw

MIRDIR = os.path.join(fw.CACHE, "mir")


def tree_hash():
    h = hashlib.sha256()
    for root, dirs, files in os.walk("/repo/src"):
        dirs.sort()
        for f in sorted(files):
            if f.endswith(".rs"):
                p = os.path.join(root, f)
                h.update(p.encode())
                h.update(open(p, "rb").read())
    h.update(open("/repo/Cargo.toml", "rb").read())
    return h.hexdigest()[:16]


def dump():
    os.makedirs(MIRDIR, exist_ok=True)
    th = tree_hash()
    out = os.path.join(MIRDIR, f"plonk_{th}.mir")
    if not os.path.exists(out):
        for f in os.listdir(MIRDIR):
            if f.startswith("plonk_") and f.endswith(".mir"):
                os.unlink(os.path.join(MIRDIR, f))
        subprocess.run(["touch", "/repo/src/lib.rs"], check=False)
        env = dict(os.environ, CARGO_TARGET_DIR=os.path.join(MIRDIR, "target"), CARGO_NET_OFFLINE="true")
        with open(out + ".tmp", "w") as fo:
            p = subprocess.run(["cargo", "+nightly", "rustc", "--offline", "--lib", "--", "-Zunpretty=mir",
                                "-C", "debug-assertions=off", "-C", "overflow-checks=on"],
                               cwd="/repo", env=env, stdout=fo, stderr=subprocess.PIPE, text=True)
        if p.returncode != 0:
            raise RuntimeError("MIR dump failed: " + p.stderr[-2000:])
        os.rename(out + ".tmp", out)
    return open(out).read()


def source_consts():
    """named usize constants, read from the current sources"""
    consts = {}
    for path, names in (("/repo/src/commitment_scheme/kzg10/srs.rs", ["ADDED_BLINDING_DEGREE"]),
                        ("/repo/src/compiler.rs", ["CIRCUIT_SIZE_PADDING"]),
                        ("/repo/src/composer/compress.rs", ["PACKED_BYTES_PER_CONSTRAINT", "PACKED_FIXED_BYTES",
                                                             "SELECTORS_PER_POLYNOMIAL"])):
        txt = open(path).read()
        for n in names:
            m = re.search(r"const " + n + r": usize =\s*([^;]+);", txt)
            if m:
                expr = m.group(1).replace("\n", " ")
                try:
                    consts[n] = (64, int(eval(expr, {"__builtins__": {}}, {})))
                except Exception:
                    pass
    return consts
