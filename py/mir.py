"""Engine M: a small path-enumerating symbolic interpreter for the MIR of
loop-free functions (rustc -Zunpretty=mir, overflow checks on).

Integers are SMT-LIB bit-vectors (64/32 bit) and wrap exactly as machine words
do; overflow-check `assert`s, slice-index bounds and explicit panics end a path
with a panic outcome.  Enum values (Result / Option / ControlFlow / crate
errors), tuples, references and the few std containers that occur (Vec: only
its length) are interpreted concretely per path, so every path has a purely
bit-vector path condition.  Calls to crate functions are inlined from the same
MIR dump; std integer functions are given their documented semantics.
"""
import re


class BV:
    def __init__(self, w, s):
        self.w, self.s = w, s

    def __repr__(self):
        return f"BV{self.w}({self.s})"


class B:
    def __init__(self, s):
        self.s = s

    def __repr__(self):
        return f"B({self.s})"


class Enum:
    def __init__(self, ty, variant, payload=None):
        self.ty, self.variant, self.payload = ty, variant, payload

    def __repr__(self):
        return f"{self.ty}::{self.variant}({self.payload})"


class Obj:
    """struct / opaque object with indexed fields"""

    def __init__(self, name, fields=None):
        self.name, self.fields = name, fields or {}

    def __repr__(self):
        return f"Obj({self.name},{self.fields})"


class Panic(Exception):
    pass


def bvconst(w, v):
    return BV(w, f"(_ bv{v % (1 << w)} {w})")


TYPES_W = {"usize": 64, "u64": 64, "u32": 32, "i32": 32, "isize": 64, "u8": 8, "u128": 128}


class Mir:
    def __init__(self, text, consts):
        self.fns = {}
        self.consts = consts
        cur, name = None, None
        for line in text.splitlines():
            if line.startswith("fn "):
                name = line[3:line.index("(")]
                cur = [line]
            elif cur is not None:
                cur.append(line)
                if line == "}":
                    self.fns[name] = cur
                    cur = None

    def find(self, suffix):
        c = [n for n in self.fns if n.endswith(suffix) and "{closure" not in n]
        if len(c) != 1:
            raise KeyError(f"{suffix}: {c}")
        return c[0]

    def resolve(self, callname):
        """crate function for a call as printed in MIR (`Type::method`)"""
        c = re.sub(r"::<[^>]*>", "", callname)
        segs = c.split("::")
        method = segs[-1]
        ty = segs[-2] if len(segs) > 1 else None
        cands = [n for n in self.fns if n.endswith("::" + method) and "{closure" not in n]
        if ty:
            typed = [n for n in cands if re.search(r"\(_1: &?(mut )?[\w:]*" + re.escape(ty) + r"\b", self.fns[n][0])
                     or n.endswith(ty + "::" + method)]
            if len(typed) == 1:
                return typed[0]
        if len(cands) == 1:
            return cands[0]
        return None

    def blocks(self, name):
        lines = self.fns[name]
        blocks, cur = {}, None
        for l in lines:
            m = re.match(r"\s+bb(\d+)(?: \(cleanup\))?: \{", l)
            if m:
                cur = int(m.group(1))
                blocks[cur] = []
            elif cur is not None:
                if l.strip() == "}":
                    cur = None
                else:
                    blocks[cur].append(l.strip())
        return blocks

    def params(self, name):
        hdr = self.fns[name][0]
        inside = hdr[hdr.index("(") + 1:hdr.rindex(") ->") if ") ->" in hdr else hdr.rindex(")")]
        ps = []
        for p in re.findall(r"(_\d+): ([^,]+(?:<[^>]*>)?[^,]*)", inside):
            ps.append(p)
        return ps


class Interp:
    """enumerates paths; each result: (path_condition [smt bools], outcome)"""

    def __init__(self, mir, intrinsics=None, max_paths=4000):
        self.mir = mir
        self.decls = []
        self.nfresh = 0
        self.max_paths = max_paths
        self.extra_intrinsics = intrinsics or {}

    def fresh(self, w, hint="t"):
        self.nfresh += 1
        n = f"{hint}_{self.nfresh}"
        self.decls.append(f"(declare-const {n} (_ BitVec {w}))")
        return BV(w, n)

    # ------------------------------------------------------------ operands
    def const(self, tok):
        m = re.match(r"const (-?\d+)_(\w+)$", tok)
        if m:
            return bvconst(TYPES_W[m.group(2)], int(m.group(1)))
        if tok in ("const true", "const false"):
            return B(tok.split()[1])
        if tok == "const ()":
            return ()
        if tok.startswith('const "') or tok.startswith("const b\""):
            return Obj("str-literal")
        if tok.startswith("const ZeroSized"):
            return Obj("zero-sized")
        name = tok[6:]
        for k, v in self.mir.consts.items():
            if name.endswith(k):
                return bvconst(v[0], v[1])
        if "::BITS" in name:
            return bvconst(32, 64)
        # enum constants like error::Error::Variant
        m = re.match(r"(.*)::(\w+)$", name)
        if m:
            return Enum(m.group(1), m.group(2))
        raise ValueError("const " + tok)

    def place_get(self, env, p):
        p = p.strip()
        m = re.match(r"^_(\d+)$", p)
        if m:
            return env[p]
        m = re.match(r"^\(\*(.+)\)$", p)
        if m:
            return self.place_get(env, m.group(1))
        m = re.match(r"^\((.+)\.(\d+): .+\)$", p)
        if m:
            base = m.group(1).strip()
            idx = int(m.group(2))
            if base.startswith("(") and base.endswith(")") and " as " in base:
                base = base[1:-1]
            mm = re.match(r"^(.+) as (\w+)$", base)
            if mm:
                v = self.place_get(env, mm.group(1))
                if not isinstance(v, Enum) or v.variant != mm.group(2):
                    raise ValueError(f"downcast {base} on {v}")
                pl = v.payload
                return pl[idx] if isinstance(pl, tuple) else pl
            v = self.place_get(env, base)
            if isinstance(v, tuple):
                return v[idx]
            if isinstance(v, Obj):
                return v.fields.get(idx, Obj("opaque-field"))
            raise ValueError(f"field {idx} of {v}")
        raise ValueError("place " + p)

    def operand(self, env, tok):
        tok = tok.strip()
        if tok.startswith("no_retag "):
            tok = tok[9:]
        if tok.startswith("const "):
            return self.const(tok)
        if tok.startswith("copy ") or tok.startswith("move "):
            return self.place_get(env, tok[5:])
        if tok.startswith("&mut "):
            return self.place_get(env, tok[5:])
        if tok.startswith("&"):
            return self.place_get(env, tok[1:])
        if "::" in tok and not tok.startswith("(") and not tok.startswith("_"):
            return Obj("fn-item", {"path": tok})
        return self.place_get(env, tok)

    # ------------------------------------------------------------ rvalues
    def rvalue(self, env, rhs):
        rhs = rhs.strip()
        m = re.match(r"^(\w+)\((.*)\)$", rhs)
        if m and m.group(1) in ("Eq", "Ne", "Lt", "Le", "Gt", "Ge", "Add", "Sub", "Mul", "Shl", "Shr", "BitAnd",
                                "BitOr", "AddWithOverflow", "SubWithOverflow", "MulWithOverflow", "Not"):
            op = m.group(1)
            args = [self.operand(env, a) for a in split_args(m.group(2))]
            return self.binop(op, args)
        m = re.match(r"^(?:PtrMetadata|Len)\((.*)\)$", rhs)
        if m:
            v = self.operand(env, m.group(1))
            return v.fields["len"]
        if rhs.startswith("discriminant("):
            v = self.place_get(env, rhs[13:-1])
            return ("discr", v)
        m = re.match(r"^\((.*)\)$", rhs)
        if m and ("," in rhs) and not rhs.startswith("(*") and not re.match(r"^\(.+\.\d+: ", rhs):
            return tuple(self.operand(env, a) for a in split_args(m.group(1)))
        m = re.match(r"^([\w:<>, ]+?)::<.*?>::(\w+)\((.*)\)$", rhs) or re.match(r"^([\w:]+)::(\w+)\((.*)\)$", rhs)
        if m and not rhs.startswith("const"):
            args = [self.operand(env, a) for a in split_args(m.group(3))]
            return Enum(m.group(1), m.group(2), args[0] if len(args) == 1 else tuple(args))
        m = re.match(r"^([\w:]+) \{ (.*) \}$", rhs) or re.match(r"^([\w:<>]+) \{ (.*) \}$", rhs) \
            or re.match(r"^(\{closure@[^}]*\}) \{ (.*) \}$", rhs)
        if m:
            fields = {}
            for i, f in enumerate(split_args(m.group(2))):
                k, v = f.split(":", 1)
                fields[i] = self.operand(env, v)
                fields[k.strip()] = fields[i]
            return Obj(m.group(1), fields)
        m = re.match(r"^(.+) as (\w+) \(.*\)$", rhs)
        if m:
            v = self.operand(env, m.group(1))
            w = TYPES_W.get(m.group(2))
            if isinstance(v, BV) and w:
                if w == v.w:
                    return v
                if w > v.w:
                    return BV(w, f"((_ zero_extend {w - v.w}) {v.s})")
                return BV(w, f"((_ extract {w - 1} 0) {v.s})")
            return v
        if re.match(r"^error::Error::\w+$", rhs) or re.match(r"^[\w:]+::\w+$", rhs):
            mm = re.match(r"^(.*)::(\w+)$", rhs)
            return Enum(mm.group(1), mm.group(2))
        return self.operand(env, rhs)

    def binop(self, op, a):
        cmp_ = {"Eq": "=", "Lt": "bvult", "Le": "bvule", "Gt": "bvugt", "Ge": "bvuge"}
        if op in cmp_:
            return B(f"({cmp_[op]} {a[0].s} {a[1].s})")
        if op == "Ne":
            return B(f"(not (= {a[0].s} {a[1].s}))")
        if op == "Not":
            return B(f"(not {a[0].s})") if isinstance(a[0], B) else BV(a[0].w, f"(bvnot {a[0].s})")
        w = a[0].w
        arith = {"Add": "bvadd", "Sub": "bvsub", "Mul": "bvmul", "BitAnd": "bvand", "BitOr": "bvor"}
        if op in arith:
            return BV(w, f"({arith[op]} {a[0].s} {a[1].s})")
        if op in ("Shl", "Shr"):
            sh = a[1]
            s = sh.s if sh.w == w else (f"((_ zero_extend {w - sh.w}) {sh.s})" if sh.w < w else f"((_ extract {w - 1} 0) {sh.s})")
            return BV(w, f"({'bvshl' if op == 'Shl' else 'bvlshr'} {a[0].s} {s})")
        if op == "AddWithOverflow":
            return (BV(w, f"(bvadd {a[0].s} {a[1].s})"), B(f"(bvult (bvadd {a[0].s} {a[1].s}) {a[0].s})"))
        if op == "SubWithOverflow":
            return (BV(w, f"(bvsub {a[0].s} {a[1].s})"), B(f"(bvult {a[0].s} {a[1].s})"))
        if op == "MulWithOverflow":
            ext = f"(bvmul ((_ zero_extend {w}) {a[0].s}) ((_ zero_extend {w}) {a[1].s}))"
            return (BV(w, f"(bvmul {a[0].s} {a[1].s})"),
                    B(f"(not (= ((_ extract {2 * w - 1} {w}) {ext}) (_ bv0 {w})))"))
        raise ValueError(op)

    # ------------------------------------------------------------ intrinsics
    def call(self, fname, args, pc):
        """returns list of (value, extra path conditions) alternatives; may raise Panic"""
        f = re.sub(r"::<[^>]*>", "", fname)
        if f in self.extra_intrinsics:
            return self.extra_intrinsics[f](self, args, pc)
        for k_, fn_ in self.extra_intrinsics.items():
            if k_.startswith("re:") and re.search(k_[3:], fname):
                return fn_(self, args, pc, fname)
        if f.endswith("saturating_sub"):
            a, b = args
            return [(BV(a.w, f"(ite (bvult {a.s} {b.s}) (_ bv0 {a.w}) (bvsub {a.s} {b.s}))"), [])]
        if f.endswith("leading_zeros"):
            a = args[0]
            t = f"(_ bv{a.w} 32)"
            for k in range(a.w):
                # highest set bit is k  => lz = w-1-k
                t = f"(ite (= ((_ extract {k} {k}) {a.s}) #b1) (_ bv{a.w - 1 - k} 32) {t})"
            return [(BV(32, t), [])]
        if f.endswith("trailing_zeros"):
            a = args[0]
            t = f"(_ bv{a.w} 32)"
            for k in range(a.w - 1, -1, -1):
                # lowest set bit is k  => tz = k
                t = f"(ite (= ((_ extract {k} {k}) {a.s}) #b1) (_ bv{k} 32) {t})"
            return [(BV(32, t), [])]
        if f.endswith("count_ones"):
            a = args[0]
            t = " ".join(f"((_ zero_extend 31) ((_ extract {k} {k}) {a.s}))" for k in range(a.w))
            return [(BV(32, f"(bvadd {t})"), [])]
        if f.endswith("checked_next_power_of_two") or f.endswith("::next_power_of_two"):
            a = args[0]
            w = a.w
            # smallest power of two >= a (a = 0 -> 1); overflow iff a > 2^(w-1)
            t = f"(_ bv0 {w})"
            for k in range(w - 1, -1, -1):
                t = f"(ite (bvule {a.s} (_ bv{1 << k} {w})) (_ bv{1 << k} {w}) {t})"
            ovf = f"(bvugt {a.s} (_ bv{1 << (w - 1)} {w}))"
            if f.endswith("checked_next_power_of_two"):
                return [(Enum("Option", "Some", BV(w, t)), [f"(not {ovf})"]), (Enum("Option", "None"), [ovf])]
            # debug profile: overflow panics (release wraps to 0): report as a panic path
            return [(BV(w, t), [f"(not {ovf})"]), (Panic("next_power_of_two overflow"), [ovf])]
        if f.endswith("checked_mul") or f.endswith("checked_add") or f.endswith("checked_sub"):
            op = {"mul": "MulWithOverflow", "add": "AddWithOverflow", "sub": "SubWithOverflow"}[f[-3:]]
            v, o = self.binop(op, args)
            return [(Enum("Option", "Some", v), [f"(not {o.s})"]), (Enum("Option", "None"), [o.s])]
        if f.endswith("Vec::len") or f.endswith("::len"):
            v = args[0]
            return [(v.fields["len"], [])]
        if "Try>::branch" in f or f.endswith("::branch"):
            v = args[0]
            if v.variant in ("Ok", "Some"):
                return [(Enum("ControlFlow", "Continue", v.payload), [])]
            return [(Enum("ControlFlow", "Break", Enum(v.ty, v.variant, v.payload)), [])]
        if "from_residual" in f:
            return [(args[0], [])]
        if f.endswith("and_then") or f.endswith("::map"):
            v = args[0]
            if v.variant != "Some":
                return [(v, [])]
            m = re.search(r"\{closure@([^}]*)\}", fname)
            cl = [n for n in self.mir.fns if "{closure" in n and m and m.group(1) in self.mir.fns[n][0]]
            if len(cl) != 1:
                raise KeyError(fname)
            sub = Interp(self.mir, self.extra_intrinsics, self.max_paths)
            sub.decls, sub.nfresh = self.decls, self.nfresh
            alts = [(o if f.endswith("and_then") else Enum("Option", "Some", o), spc)
                    for spc, o in sub.run(cl[0], [args[1] if len(args) > 1 and isinstance(args[1], Obj) else Obj("closure"),
                                                  v.payload])]
            self.nfresh = sub.nfresh
            return alts
        if f.endswith("ok_or"):
            v, e = args
            return [(Enum("Result", "Ok", v.payload) if v.variant == "Some" else Enum("Result", "Err", e), [])]
        if f.endswith("Clone>::clone") or f.endswith("::clone") or f.endswith("to_vec"):
            return [(args[0], [])]
        if "Index<" in f and f.endswith("::index"):
            vec, rng = args
            end = rng.fields[0]
            ln = vec.fields["len"]
            name = rng.name
            if "RangeToInclusive" in name:
                bad = f"(bvuge {end.s} {ln.s})"
                newlen = BV(64, f"(bvadd {end.s} (_ bv1 64))")
            elif "RangeTo" in name:
                bad = f"(bvugt {end.s} {ln.s})"
                newlen = end
            elif "RangeFrom" in name:
                bad = f"(bvugt {end.s} {ln.s})"
                newlen = BV(64, f"(bvsub {ln.s} {end.s})")
            elif "Range" in name:
                start, end = rng.fields[0], rng.fields[1]
                bad = f"(or (bvugt {start.s} {end.s}) (bvugt {end.s} {ln.s}))"
                newlen = BV(64, f"(bvsub {end.s} {start.s})")
            else:
                raise ValueError("index " + name)
            return [(Obj("slice", {"len": newlen}), [f"(not {bad})"]), (Panic("slice index out of range"), [bad])]
        raise KeyError(fname)

    # ------------------------------------------------------------ execution
    def run(self, fname, args):
        """all paths of `fname`; returns list of (pc, outcome) with outcome = value or Panic"""
        name = self.mir.find(fname) if fname not in self.mir.fns else fname
        blocks = self.mir.blocks(name)
        params = self.mir.params(name)
        env0 = {p[0]: a for p, a in zip(params, args)}
        out = []
        stack = [(0, env0, [])]
        while stack:
            if len(out) > self.max_paths:
                raise RuntimeError("path budget")
            bb, env, pc = stack.pop()
            env = dict(env)
            try:
                nxt = self.exec_block(blocks[bb], env, pc)
            except Panic as e:
                out.append((pc, e))
                continue
            for (kind, a, b, c) in nxt:
                if kind == "ret":
                    out.append((a, env.get("_0", ()) if b is None else b))
                elif kind == "panic":
                    out.append((a, Panic(b)))
                else:
                    stack.append((a, b, c))
        return out

    def exec_block(self, lines, env, pc):
        for l in lines:
            if l.startswith("StorageLive") or l.startswith("StorageDead") or l.startswith("//") \
                    or l.startswith("debug ") or l.startswith("scope ") or l.startswith("let "):
                continue
            if l == "return;":
                return [("ret", pc, None, None)]
            if l.startswith("goto -> "):
                return [("go", int(re.search(r"bb(\d+)", l).group(1)), env, pc)]
            if l == "unreachable;" or l == "resume;":
                return [("panic", pc, "unreachable reached", None)]
            m = re.match(r"^switchInt\((.*)\) -> \[(.*)\];$", l)
            if m:
                v = self.operand(env, m.group(1))
                arms = [a.strip() for a in m.group(2).split(",")]
                res = []
                if isinstance(v, tuple) and v and v[0] == "discr":
                    e = v[1]
                    idx = {"Ok": 0, "Err": 1, "Continue": 0, "Break": 1, "None": 0, "Some": 1}[e.variant]
                    for a in arms:
                        k, t = a.split(":")
                        if k.strip() == str(idx) or (k.strip() == "otherwise" and
                                                     not any(x.split(":")[0].strip() == str(idx) for x in arms)):
                            return [("go", int(t.strip()[2:]), env, pc)]
                    raise ValueError("discriminant arm")
                taken = []
                for a in arms:
                    k, t = a.split(":")
                    k, t = k.strip(), int(t.strip()[2:])
                    if k == "otherwise":
                        cond = "(and true " + " ".join(f"(not {c})" for c in taken) + ")"
                    else:
                        if isinstance(v, B):
                            cond = f"(not {v.s})" if k == "0" else v.s
                        else:
                            cond = f"(= {v.s} (_ bv{int(k)} {v.w}))"
                        taken.append(cond)
                    res.append(("go", t, env, pc + [cond]))
                return res
            m = re.match(r"^assert\((!?)(.*?), \"(.*?)\".*\) -> \[success: bb(\d+).*\];$", l)
            if m:
                v = self.operand(env, m.group(2))
                ok = f"(not {v.s})" if m.group(1) else v.s
                return [("go", int(m.group(4)), env, pc + [ok]),
                        ("panic", pc + [f"(not {ok})"], m.group(3), None)]
            m = re.match(r"^drop\(.*\) -> \[return: bb(\d+).*\];$", l)
            if m:
                return [("go", int(m.group(1)), env, pc)]
            m = re.match(r"^(.+?) = (.+) -> \[return: bb(\d+).*\];$", l)
            if m and m.group(2).endswith(")"):
                dst, callexpr, nb = m.group(1), m.group(2).strip(), int(m.group(3))
                depth, k = 0, len(callexpr) - 1
                while k >= 0:
                    if callexpr[k] == ")":
                        depth += 1
                    elif callexpr[k] == "(":
                        depth -= 1
                        if depth == 0:
                            break
                    k -= 1
                fn_, argstr = callexpr[:k].strip(), callexpr[k + 1:-1]
                args = [self.operand(env, a) for a in split_args(argstr)]
                res = []
                try:
                    alts = self.call(fn_, args, pc)
                except KeyError:
                    # crate function: inline
                    target = self.mir.resolve(fn_)
                    if target is None:
                        return [("ret", pc, Obj("opaque-call", {"fn": fn_, "args": args}), None)]
                    sub = Interp(self.mir, self.extra_intrinsics, self.max_paths)
                    sub.decls, sub.nfresh = self.decls, self.nfresh
                    alts = []
                    for spc, sout in sub.run(target, args):
                        alts.append((sout, spc))
                    self.nfresh = sub.nfresh
                for val, extra in alts:
                    if isinstance(val, Panic):
                        res.append(("panic", pc + list(extra), str(val), None))
                        continue
                    e2 = dict(env)
                    self.assign(e2, dst, val)
                    res.append(("go", nb, e2, pc + list(extra)))
                return res
            m = re.match(r"^(.+?) = (.+);$", l)
            if m:
                self.assign(env, m.group(1), self.rvalue(env, m.group(2)))
                continue
            raise ValueError("statement: " + l)
        raise ValueError("fell off block")

    def assign(self, env, dst, val):
        dst = dst.strip()
        if re.match(r"^_\d+$", dst):
            env[dst] = val
            return
        m = re.match(r"^\((.+)\.(\d+): .+\)$", dst)
        if m:
            base = self.place_get(env, m.group(1)) if m.group(1).strip() in env else None
            if isinstance(base, tuple):
                lst = list(base)
                lst[int(m.group(2))] = val
                env[m.group(1).strip()] = tuple(lst)
                return
        m = re.match(r"^\(\*(.+)\)$", dst)
        if m:
            return self.assign(env, m.group(1), val)
        raise ValueError("assign " + dst)


def split_args(s):
    out, depth, cur = [], 0, ""
    for ch in s:
        if ch in "([{<":
            depth += 1
        elif ch in ")]}>":
            depth -= 1
        if ch == "," and depth == 0:
            out.append(cur.strip())
            cur = ""
        else:
            cur += ch
    if cur.strip():
        out.append(cur.strip())
    return out
