"""Equivalence of two big term DAGs by cut points (the "SAT sweeping" idea of
combinational equivalence checking, with the solver as the deciding step).

1. Both DAGs are simulated at pseudo-random points; nodes with equal
   signatures become *candidate* equivalence classes (untrusted hints).
2. Classes are processed bottom-up.  To prove `rep == m` for a class member,
   every strict sub-term that belongs to an already *proven* class is replaced
   by that class's cut variable; the remaining small identity goes to the
   solver (Type I, fractions cleared by cross-multiplication).
3. The roots are proven the same way.

Soundness: an identity proven with a sub-term replaced by a free variable
holds for every value of that variable, in particular for the common value of
the (already proven equal) sub-terms.  A failed/unknown lemma only loses a cut
(the parent identity gets bigger), never soundness.
"""
import random

import smt
from smt import R


def _sig(roots, names, seed, k=2):
    rnd = random.Random(seed)
    sigs = None
    for _ in range(k):
        env = {n: rnd.randrange(1, R) for n in names}
        val = smt.evaluate(roots, env)
        if sigs is None:
            sigs = {i: (v,) for i, v in val.items()}
        else:
            sigs = {i: sigs[i] + (val[i],) for i in sigs}
    return sigs


def _size_below(e, stop, memo):
    """number of nodes reachable from e without passing through `stop` ids"""
    seen = set()
    stack = [e]
    while stack:
        x = stack.pop()
        if x.id in seen:
            continue
        seen.add(x.id)
        if x.op in "vc":
            continue
        for a in x.args:
            if a.id not in stop:
                stack.append(a)
    return len(seen)


class Sweeper:
    def __init__(self, run, ctx, prefix, seed=0, max_lemma_nodes=400):
        self.run, self.ctx, self.prefix = run, ctx, prefix
        self.seed = seed
        self.cut_of = {}      # node id -> cut Expr (variable) for proven classes
        self.nlemma = 0
        self.max_lemma_nodes = max_lemma_nodes

    def _abs(self, e, root_ids, memo):
        """rebuild e with proven-class members (other than the roots
        themselves) replaced by their cut variable"""
        order = smt.topo([e])
        for x in order:
            if x.id in memo:
                continue
            if x.id in self.cut_of and x.id not in root_ids:
                memo[x.id] = self.cut_of[x.id]
            elif x.op in "vc":
                memo[x.id] = x
            else:
                memo[x.id] = self.ctx.mk(x.op, tuple(memo[a.id] for a in x.args))
        return memo[e.id]

    def _abs_lazy(self, e, root_ids, allowed=None):
        """like _abs but does not descend below cut nodes (keeps lemmas small);
        `allowed`: set of cut variables that may be used (others are expanded)"""
        memo = {}
        stack = [(e, False)]
        while stack:
            x, done = stack.pop()
            if x.id in memo:
                continue
            if x.id in self.cut_of and x.id not in root_ids and (
                    allowed is None or self.cut_of[x.id].id in allowed):
                memo[x.id] = self.cut_of[x.id]
                continue
            if x.op in "vc":
                memo[x.id] = x
                continue
            if done:
                memo[x.id] = self.ctx.mk(x.op, tuple(memo[a.id] for a in x.args))
            else:
                stack.append((x, True))
                for a in x.args:
                    if a.id not in memo:
                        stack.append((a, False))
        return memo[e.id]

    def _common(self, x, y):
        """cut variables that occur below BOTH x and y: abstracting a sub-term
        that has no counterpart on the other side makes a true identity
        unprovable, so only shared cuts are used"""
        cx = {self.cut_of[e.id].id for e in smt.topo([x]) if e.id in self.cut_of and e.id != x.id}
        cy = {self.cut_of[e.id].id for e in smt.topo([y]) if e.id in self.cut_of and e.id != y.id}
        return cx & cy

    def _try(self, a, b, timeout):
        """solve one identity now; returns (status, obligation-like record)"""
        ctx = self.ctx
        if smt.has_inv([a, b]):
            (ln, ld), (rn, rd) = smt.to_frac(ctx, [a, b])
            x, y = ln * rd, rn * ld
        else:
            x, y = a, b
        if x.id == y.id:
            return "unsat", None
        lines = smt.smt_defs([x, y])
        goal = f"(not (= (mod (- {smt.ref(x)} {smt.ref(y)}) {R}) 0))"
        r = smt.check(lines, [goal], "z3", timeout, get_model=False)
        return r.status, (lines, [goal], r)

    def prove(self, name, lhs, rhs, replay=None, lemma_timeout=10):
        """Establish lhs == rhs.  Cut lemmas are solved eagerly (a failed hint is
        retried without abstraction and otherwise discarded: it only loses a
        cut).  Successful lemmas are recorded as discharged obligations of the
        run; the root identity is queued as a normal obligation."""
        import framework as fw
        ctx = self.ctx
        names = smt.variables([lhs, rhs])
        sig = _sig([lhs, rhs], names, self.seed)
        in_l = {e.id for e in smt.topo([lhs])}
        in_r = {e.id for e in smt.topo([rhs])}
        byid = {e.id: e for e in smt.topo([lhs, rhs])}
        classes = {}
        for i, s_ in sig.items():
            if None in s_:
                continue
            e = byid[i]
            if e.op in "vc":
                continue
            classes.setdefault(s_, []).append(i)
        cands = []
        for s_, ids in classes.items():
            if len(ids) < 2:
                continue
            if not (any(i in in_l for i in ids) and any(i in in_r for i in ids)):
                continue
            if lhs.id in ids or rhs.id in ids:
                continue
            cands.append(sorted(ids))
        cands.sort(key=lambda ids: max(ids))
        discarded = 0
        for ids in cands:
            rep = byid[ids[0]]
            cut = ctx.var(f"cut_{self.prefix}_{name}_{rep.id}".replace("/", "_"))
            members = [rep.id]
            for j in ids[1:]:
                m = byid[j]
                allowed = self._common(rep, m)
                a = self._abs_lazy(rep, {rep.id, m.id}, allowed)
                b = self._abs_lazy(m, {rep.id, m.id}, allowed)
                st, rec = ("skip", None)
                if len(smt.topo([a, b])) <= self.max_lemma_nodes:
                    st, rec = self._try(a, b, lemma_timeout)
                if st != "unsat":
                    # retry without any abstraction (full expansion)
                    if len(smt.topo([rep, m])) <= 4 * self.max_lemma_nodes:
                        st, rec = self._try(rep, m, lemma_timeout)
                if st != "unsat":
                    discarded += 1
                    continue
                members.append(j)
                if rec is not None:
                    self.nlemma += 1
                    o = fw.Obligation(f"{self.prefix}/{name}/cut/{rep.id}={j}", "lemma/cut-point",
                                      rec[0], rec[1], "unsat", lemma_timeout, None, None, False)
                    o.result = rec[2]
                    self.run.obls.append(o)
            if len(members) > 1:
                for j in members:
                    self.cut_of[j] = cut
        allowed = self._common(lhs, rhs)
        a = self._abs_lazy(lhs, {lhs.id, rhs.id}, allowed)
        b = self._abs_lazy(rhs, {lhs.id, rhs.id}, allowed)
        self.run.extra["sweep_discarded_hints"] = self.run.extra.get("sweep_discarded_hints", 0) + discarded
        return self.run.identity(f"{self.prefix}/{name}", a, b, replay=replay,
                                 meta={"cut_lemmas": self.nlemma, "root_nodes": len(smt.topo([a, b]))})
