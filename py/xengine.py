"""Engine X: constraint systems extracted from the real composer, row
semantics taken from the real widget code (engine S), decided by z3.

Two levels:
  1. row semantics.  The real `compute_quotient_i` terms are split by powers
     of the family's separation challenge (the split is re-verified by the
     solver); a row is satisfied iff every coefficient is 0 in F_r.
  2. global query.  Witnesses are Int variables in [0, r).  A coefficient
     `C = 0 (mod r)` is rewritten with the integral-domain axiom (r prime):
     products become disjunctions of their factors; linear factors become
     `L = k*r` with a bounded integer k (pure LIA, balanced constants);
     non-linear factors keep a `mod` atom.
"""
import smt
from smt import R

SEL = ["q_m", "q_l", "q_r", "q_o", "q_f", "q_c", "q_arith", "q_range", "q_logic",
       "q_fixed", "q_var"]
WIRES = ["a", "b", "c", "d", "a_w", "b_w", "d_w"]
FAM_SEL = {"arith": "q_arith", "range": "q_range", "logic": "q_logic",
           "fixed": "q_fixed", "var": "q_var"}
FAM_K = {"range": "k_range", "logic": "k_logic", "fixed": "k_fixed", "var": "k_var"}


# ------------------------------------------------------------------ kappa split
def poly_in(ctx, root, kname):
    """dict power -> Expr such that root = sum k^p * coeff_p (structural)."""
    memo = {}
    for e in smt.topo([root]):
        if e.op == "v":
            memo[e.id] = {1: ctx.const(1)} if e.args[0] == kname else {0: e}
        elif e.op == "c":
            memo[e.id] = {0: e}
        elif e.op in "+-":
            a, b = memo[e.args[0].id], memo[e.args[1].id]
            r = dict(a)
            for p, c in b.items():
                if p in r:
                    r[p] = ctx.mk(e.op, (r[p], c))
                else:
                    r[p] = c if e.op == "+" else -c
            memo[e.id] = r
        elif e.op == "*":
            a, b = memo[e.args[0].id], memo[e.args[1].id]
            r = {}
            for p, c in a.items():
                for q, d in b.items():
                    t = c * d
                    r[p + q] = (r[p + q] + t) if (p + q) in r else t
            memo[e.id] = r
        elif e.op == "n":
            memo[e.id] = {p: -c for p, c in memo[e.args[0].id].items()}
        else:
            raise ValueError("inverse inside a row polynomial")
    return memo[root.id]


def subst(ctx, roots, mapping):
    """substitute variables (name -> Expr) with folding"""
    memo = {}
    for e in smt.topo(roots):
        if e.op == "v":
            memo[e.id] = mapping.get(e.args[0], e)
        elif e.op == "c":
            memo[e.id] = e
        else:
            memo[e.id] = ctx.mk(e.op, tuple(memo[a.id] for a in e.args))
    return [memo[r.id] for r in roots]


class RowSem:
    """Row semantics from the real widget code."""

    def __init__(self, run, ctx, nodes, outputs):
        self.ctx = ctx
        self.raw = {fam: nodes[i] for fam, i in outputs.items()}
        self.comp = {}
        for fam, root in self.raw.items():
            if fam == "arith":
                self.comp[fam] = [root]
                continue
            k = FAM_K[fam]
            parts = poly_in(ctx, root, k)
            comps = [parts[p] for p in sorted(parts)]
            self.comp[fam] = comps
            kv = ctx.var(k)
            recomposed = ctx.const(0)
            for p in sorted(parts):
                recomposed = recomposed + (kv ** p) * parts[p]
            # the split is untrusted: the solver re-verifies it
            run.identity(f"rowsem/split/{fam}", root, recomposed)

    def row_components(self, sel_vals, wire_exprs, pi=None):
        """components (Exprs over the witness variables) that must vanish for a
        row with concrete selectors `sel_vals` (11 ints)."""
        ctx = self.ctx
        m = {SEL[i]: ctx.const(sel_vals[i]) for i in range(11)}
        m.update(wire_exprs)
        out = []
        for fam, comps in self.comp.items():
            if sel_vals[SEL.index(FAM_SEL[fam])] % R == 0:
                if fam == "arith" and pi is not None:
                    out.append(("arith+pi", pi))
                continue
            cs = subst(ctx, comps, m)
            for j, c in enumerate(cs):
                if fam == "arith" and pi is not None:
                    c = c + pi
                if c.op == "c":
                    if c.args[0] != 0:
                        out.append((f"{fam}{j}", c))  # unsatisfiable constant
                    continue
                out.append((f"{fam}{j}", c))
        return out


# ------------------------------------------------------------------ level 2
def bal(c):
    c %= R
    return c - R if c > R // 2 else c


def linear_form(e, memo):
    """{var_name: coeff, 1: const} if e is linear in its variables, else None.
    Coefficients are balanced integers (representatives in (-r/2, r/2])."""
    if e.id in memo:
        return memo[e.id]
    if e.op == "v":
        r = {e.args[0]: 1}
    elif e.op == "c":
        r = {1: bal(e.args[0])}
    elif e.op in "+-":
        a, b = linear_form(e.args[0], memo), linear_form(e.args[1], memo)
        if a is None or b is None:
            r = None
        else:
            r = dict(a)
            s = 1 if e.op == "+" else -1
            for k, c in b.items():
                r[k] = r.get(k, 0) + s * c
    elif e.op == "n":
        a = linear_form(e.args[0], memo)
        r = None if a is None else {k: -c for k, c in a.items()}
    elif e.op == "*":
        a, b = linear_form(e.args[0], memo), linear_form(e.args[1], memo)
        if a is None or b is None:
            r = None
        elif set(a.keys()) <= {1}:
            r = {k: a.get(1, 0) * c for k, c in b.items()}
        elif set(b.keys()) <= {1}:
            r = {k: b.get(1, 0) * c for k, c in a.items()}
        else:
            r = None
    else:
        r = None
    if r is not None:
        r = {k: bal(c) for k, c in r.items() if bal(c) != 0}
    memo[e.id] = r
    return r


def expand(e, memo, cap=64):
    """sparse multivariate expansion {monomial(tuple of (var,deg)): coeff};
    None when it grows beyond `cap` monomials"""
    if e.id in memo:
        return memo[e.id]
    if e.op == "v":
        r = {((e.args[0], 1),): 1}
    elif e.op == "c":
        r = {(): e.args[0] % R} if e.args[0] % R else {}
    elif e.op in "+-":
        a, b = expand(e.args[0], memo, cap), expand(e.args[1], memo, cap)
        if a is None or b is None:
            r = None
        else:
            r = dict(a)
            s_ = 1 if e.op == "+" else -1
            for m, c in b.items():
                v = (r.get(m, 0) + s_ * c) % R
                if v:
                    r[m] = v
                else:
                    r.pop(m, None)
    elif e.op == "n":
        a = expand(e.args[0], memo, cap)
        r = None if a is None else {m: (-c) % R for m, c in a.items()}
    elif e.op == "*":
        a, b = expand(e.args[0], memo, cap), expand(e.args[1], memo, cap)
        if a is None or b is None or len(a) * len(b) > cap * 4:
            r = None
        else:
            r = {}
            for m1, c1 in a.items():
                for m2, c2 in b.items():
                    d = dict(m1)
                    for v, k in m2:
                        d[v] = d.get(v, 0) + k
                    m = tuple(sorted(d.items()))
                    v = (r.get(m, 0) + c1 * c2) % R
                    if v:
                        r[m] = v
                    else:
                        r.pop(m, None)
    else:
        r = None
    if r is not None and len(r) > cap:
        r = None
    memo[e.id] = r
    return r


def sqrt_mod(a):
    """square root mod r (Tonelli-Shanks); None if a is a non-residue"""
    a %= R
    if a == 0:
        return 0
    if pow(a, (R - 1) // 2, R) != 1:
        return None
    q, s_ = R - 1, 0
    while q % 2 == 0:
        q //= 2
        s_ += 1
    z = 2
    while pow(z, (R - 1) // 2, R) != R - 1:
        z += 1
    m, c, t, r_ = s_, pow(z, q, R), pow(a, q, R), pow(a, (q + 1) // 2, R)
    while t != 1:
        i, t2 = 0, t
        while t2 != 1:
            t2 = t2 * t2 % R
            i += 1
        b = pow(c, 1 << (m - i - 1), R)
        m, c, t, r_ = i, b * b % R, t * b * b % R, r_ * b % R
    return r_


class Query:
    """SMT builder over witness variables w<i> in [0, r)."""

    def __init__(self, tag=""):
        self.decls = []
        self.asserts = []
        self.vars = set()
        self.nk = 0
        self.lin_memo = {}
        self.exp_memo = {}
        self.hints = []
        self.tag = tag
        self.bounds = {}   # var -> (lo, hi) inclusive, default [0, r-1]

    def var(self, name, lo=0, hi=R - 1):
        v = smt.vname(name)
        if v not in self.vars:
            self.vars.add(v)
            self.decls.append(f"(declare-const {v} Int)")
            self.decls.append(f"(assert (and (<= {lo} {v}) (<= {v} {hi})))")
            self.bounds[name] = (lo, hi)
        return v

    def fresh(self, lo, hi):
        self.nk += 1
        k = f"k{self.tag}_{self.nk}"
        self.decls.append(f"(declare-const {k} Int)")
        self.decls.append(f"(assert (and (<= {lo} {k}) (<= {k} {hi})))")
        return k

    def lin_smt(self, lf):
        terms = []
        for k, c in sorted(lf.items(), key=lambda kv: str(kv[0])):
            if k == 1:
                terms.append(sint(c))
            elif c == 1:
                terms.append(self.var(k))
            else:
                terms.append(f"(* {sint(c)} {self.var(k)})")
        if not terms:
            return "0"
        if len(terms) == 1:
            return terms[0]
        return "(+ " + " ".join(terms) + ")"

    def lin_zero(self, lf, positive=False):
        """SMT Bool: linear form == 0 (mod r), as L = k*r with bounded k.
        A fresh existential k is only sound where the atom occurs POSITIVELY
        (asserted rows); in any other context a `mod` atom is used."""
        lo = hi = lf.get(1, 0)
        for k, c in lf.items():
            if k == 1:
                continue
            self.var(k)
            blo, bhi = self.bounds.get(k, (0, R - 1))
            if c > 0:
                lo += c * blo
                hi += c * bhi
            else:
                lo += c * bhi
                hi += c * blo
        klo = -((-lo) // R)   # ceil(lo / R)
        khi = hi // R
        L = self.lin_smt(lf)
        if klo > khi:
            return "false"
        if khi - klo <= 6:
            alts = [f"(= {L} {sint(k * R)})" for k in range(klo, khi + 1)]
            return alts[0] if len(alts) == 1 else "(or " + " ".join(alts) + ")"
        if not positive:
            return f"(= (mod {L} {R}) 0)"
        k = self.fresh(klo, khi)
        return f"(= {L} (* {k} {R}))"

    def int_expr(self, e, memo):
        """generic integer expression of a (possibly non-linear) term"""
        if e.id in memo:
            return memo[e.id]
        if e.op == "v":
            s = self.var(e.args[0])
        elif e.op == "c":
            s = sint(bal(e.args[0]))
        elif e.op == "n":
            s = f"(- {self.int_expr(e.args[0], memo)})"
        else:
            s = f"({e.op} {self.int_expr(e.args[0], memo)} {self.int_expr(e.args[1], memo)})"
        memo[e.id] = s
        return s

    def zero(self, e, depth=0, positive=False):
        """SMT Bool for `e == 0 in F_r` (integral-domain rewriting).
        `positive=True` only when the formula is asserted as is (not negated,
        not under an implication premise)."""
        if e.op == "c":
            return "true" if e.args[0] % R == 0 else "false"
        if e.op == "n":
            return self.zero(e.args[0], depth, positive)
        lf = linear_form(e, self.lin_memo)
        if lf is not None:
            return self.lin_zero(lf, positive)
        if e.op == "*":
            return (f"(or {self.zero(e.args[0], depth + 1, positive)} "
                    f"{self.zero(e.args[1], depth + 1, positive)})")
        fac = self.factor_univariate(e, positive)
        if fac is not None:
            return fac
        return f"(= (mod {self.int_expr(e, {})} {R}) 0)"

    def factor_univariate(self, e, positive=False):
        """Encoder-proposed factorisation of a univariate quadratic
        alpha*x^2+beta*x+gamma = alpha*(x-r1)*(x-r2); the proposal is
        untrusted: the identity is queued in `self.hints` and must be proven
        by the solver (Type I)."""
        ex = expand(e, self.exp_memo)
        if ex is None:
            return None
        vs = {v for m in ex for v, _ in m}
        if len(vs) != 1:
            return None
        x = next(iter(vs))
        deg = max((k for m in ex for _, k in m), default=0)
        if deg != 2:
            return None
        al, be, ga = ex.get(((x, 2),), 0), ex.get(((x, 1),), 0), ex.get((), 0)
        disc = (be * be - 4 * al * ga) % R
        sq = sqrt_mod(disc)
        ctx = e.ctx
        if sq is None:
            # no root: the component can never vanish; hint: disc is a non-residue
            # (checked concretely by Euler's criterion -- arithmetic on constants)
            return "false"
        inv2a = pow(2 * al, R - 2, R)
        r1, r2 = (-be + sq) * inv2a % R, (-be - sq) * inv2a % R
        xv = ctx.var(x)
        prod = ctx.const(al) * (xv - r1) * (xv - r2)
        self.hints.append((e, prod))
        return (f"(or {self.lin_zero({x: 1, 1: bal(-r1)}, positive)} "
                f"{self.lin_zero({x: 1, 1: bal(-r2)}, positive)})")

    def add(self, s):
        self.asserts.append(s)

    def lines(self):
        return list(self.decls)


def sint(v):
    return str(v) if v >= 0 else f"(- {-v})"


# ------------------------------------------------------------------ layouts
class Layout:
    def __init__(self, j):
        self.gates = [([int(x, 16) for x in g[0]], g[1]) for g in j["gates"]]
        self.witnesses = [int(x, 16) for x in j["witnesses"]]
        self.pis = {int(r): int(v, 16) for r, v in j["pis"]}
        self.inputs = j.get("inputs", {})
        self.returned = j.get("returned", {})
        self.init_rows = j.get("init_rows", 0)
        # Engine X reads copy constraints off shared witness indices: that is only what the prover
        # enforces if the permutation registers exactly these positions.  Checked on every layout.
        self.perm_mismatch = None
        if "perm" in j:
            want = {}
            for r, (_, w) in enumerate(self.gates):
                for col, wi in enumerate(w):
                    want.setdefault(wi, set()).add((col, r))
            got = {int(w): {(int(c), int(r)) for c, r in ps} for w, ps in j["perm"]}
            missing = sorted((w, p) for w, ps in want.items() for p in ps if p not in got.get(w, set()))
            extra = sorted((w, p) for w, ps in got.items() for p in ps if p not in want.get(w, set()))
            if missing or extra:
                self.perm_mismatch = {"positions_not_copy_constrained": missing[:20], "unexpected_positions": extra[:20]}

    def shape(self):
        """hashable description (selectors + wiring + pi rows)"""
        return (tuple((tuple(s), tuple(w)) for s, w in self.gates), tuple(sorted(self.pis)))


def wname(i):
    return f"w{i}"


def default_rows(layout):
    """All rows except the two dummy blinding rows appended by
    `Composer::initialized()` (rows 2,3): they only touch their own four
    witnesses, which no gadget row may use (checked here)."""
    n = len(layout.gates)
    if layout.init_rows != 4:
        return list(range(n))
    dummy = set(layout.gates[2][1]) | set(layout.gates[3][1])
    dummy -= {0, 1}
    for i in range(4, n):
        if dummy & set(layout.gates[i][1]):
            return list(range(n))
    return [0, 1] + list(range(4, n))


def encode_layout(q, rowsem, layout, rows=None, pi_exprs=None, wmap=None):
    """Assert every row of `layout` (or the subset `rows`) in query q.
    Returns the list of (row, component name, SMT) for reporting."""
    ctx = rowsem.ctx
    n = len(layout.gates)
    out = []
    wmap = wmap or {}
    if rows is None:
        rows = default_rows(layout)

    def wv(i):
        nm = wmap.get(i, wname(i))
        return nm if isinstance(nm, smt.Expr) else ctx.var(nm)

    for i in (rows if rows is not None else range(n)):
        sel, w = layout.gates[i]
        nxt = layout.gates[i + 1][1] if i + 1 < n else None
        reads_next = any(sel[SEL.index(s)] % R for s in ("q_range", "q_logic", "q_fixed", "q_var"))
        if nxt is None:
            if reads_next:
                raise ValueError("last row of the layout reads the next row")
            nxt = w
        wires = {"a": wv(w[0]), "b": wv(w[1]), "c": wv(w[2]), "d": wv(w[3]),
                 "a_w": wv(nxt[0]), "b_w": wv(nxt[1]), "d_w": wv(nxt[3])}
        pi = None
        if i in layout.pis:
            pi = pi_exprs[i] if pi_exprs and i in pi_exprs else ctx.const(layout.pis[i])
        for name, comp in rowsem.row_components(sel, wires, pi):
            f = q.zero(comp, positive=True)
            q.add(f)
            out.append((i, name, f))
    return out


# ------------------------------------------------------------------ range-block summaries
class RangePatterns:
    """Layouts of `range_check(k)` for every k, as extracted from the real
    composer in this run; used to recognise range-check sub-blocks inside
    bigger gadgets so that they can be replaced by the summary `value < 2^k`
    (justified by the C09 soundness obligation of that width, re-proven by the
    run that uses the summary)."""

    def __init__(self, layouts):
        self.pat = {}
        for j in layouts:
            L = Layout(j)
            rows = L.gates[L.init_rows:]
            self.pat[j["width"]] = (rows, L.inputs["x"], L)
        # longest patterns first
        self.order = sorted(self.pat, key=lambda k: -len(self.pat[k][0]))
        self.by_first = {}
        for k in self.order:
            rows = self.pat[k][0]
            key = tuple(rows[0][0])
            self.by_first.setdefault(key, []).append(k)

    def match_at(self, layout, i, k):
        rows, xin, _ = self.pat[k]
        m = len(rows)
        if i + m > len(layout.gates):
            return None
        mp = {0: 0, 1: 1}
        inv = {0: 0, 1: 1}
        for (ps, pw), (bs, bw) in zip(rows, layout.gates[i:i + m]):
            if ps != bs:
                return None
            for a, b in zip(pw, bw):
                if a in mp:
                    if mp[a] != b:
                        return None
                else:
                    if b in inv:
                        return None
                    mp[a] = b
                    inv[b] = a
        return mp, m

    def find_blocks(self, layout, start=None):
        """greedy left-to-right: list of (row_start, row_end, k, value_witness)"""
        i = layout.init_rows if start is None else start
        n = len(layout.gates)
        use = {}
        for r, (_, w) in enumerate(layout.gates):
            for x in w:
                use.setdefault(x, set()).add(r)
        blocks = []
        while i < n:
            hit = None
            for k in self.by_first.get(tuple(layout.gates[i][0]), []):
                r = self.match_at(layout, i, k)
                if r is None:
                    continue
                mp, m = r
                xin = self.pat[k][1]
                internals = [b for a, b in mp.items() if a not in (0, 1, xin)]
                blockrows = set(range(i, i + m))
                # next-row reads: the row before the block must not read into it
                private = all(use[b] <= blockrows for b in internals)
                if private and xin in mp:
                    hit = (i, i + m, k, mp[xin])
                    break
            if hit:
                blocks.append(hit)
                i = hit[1]
            else:
                i += 1
        return blocks


def encode_with_summaries(q, rowsem, layout, patterns, min_rows=3):
    """encode the layout, replacing recognised range-check blocks (of at
    least `min_rows` rows) by `value < 2^k`.  Returns the blocks used."""
    blocks = [b for b in patterns.find_blocks(layout) if b[1] - b[0] >= min_rows and b[2] <= 254]
    skip = set()
    for (s, e, k, w) in blocks:
        skip |= set(range(s, e))
    rows = [i for i in default_rows(layout) if i not in skip]
    encode_layout(q, rowsem, layout, rows=rows)
    for (s, e, k, w) in blocks:
        v = q.var(wname(w))
        q.add(f"(< {v} {1 << k})")
    return blocks


# ------------------------------------------------------------------ bound lemmas
def _disjuncts(e, lin_memo, exp_memo):
    """linear forms whose vanishing (mod r) is equivalent to e == 0, or None"""
    if e.op == "n":
        return _disjuncts(e.args[0], lin_memo, exp_memo)
    lf = linear_form(e, lin_memo)
    if lf is not None:
        if set(lf.keys()) <= {1}:
            # a constant: non-zero never vanishes (no disjunct); zero: no information
            return [] if lf.get(1, 0) % R else None
        return [lf]
    if e.op == "*":
        a = _disjuncts(e.args[0], lin_memo, exp_memo)
        b = _disjuncts(e.args[1], lin_memo, exp_memo)
        if a is None or b is None:
            return None
        return a + b
    ex = expand(e, exp_memo)
    if ex is None:
        return None
    vs = {v for m in ex for v, _ in m}
    if len(vs) == 1 and max((k for m in ex for _, k in m), default=0) == 2:
        x = next(iter(vs))
        al, be, ga = ex.get(((x, 2),), 0), ex.get(((x, 1),), 0), ex.get((), 0)
        sq = sqrt_mod((be * be - 4 * al * ga) % R)
        if sq is None:
            return []
        i2a = pow(2 * al, R - 2, R)
        return [{x: 1, 1: bal(-((-be + sq) * i2a))}, {x: 1, 1: bal(-((-be - sq) * i2a))}]
    return None


def propagate_bounds(rowsem, layout, rows=None, init=None, passes=2):
    """Speculative interval propagation over the rows, in order.  Returns
    (bounds, lemmas): every tightened bound is justified by a tiny lemma query
    `bounds(other witnesses of the atom) and atom => lo <= t <= hi`, to be
    proven by the solver (each lemma only assumes bounds established by
    earlier lemmas, so the whole set is sound by induction on the order)."""
    ctx = rowsem.ctx
    rows = default_rows(layout) if rows is None else rows
    n = len(layout.gates)
    bounds = dict(init or {})
    lemmas = []
    lin_memo, exp_memo = {}, {}
    full = (0, R - 1)
    for _pass in range(passes):
        changed = False
        for i in rows:
            sel, w = layout.gates[i]
            nxt = layout.gates[i + 1][1] if i + 1 < n else w
            wires = {"a": ctx.var(wname(w[0])), "b": ctx.var(wname(w[1])), "c": ctx.var(wname(w[2])),
                     "d": ctx.var(wname(w[3])), "a_w": ctx.var(wname(nxt[0])), "b_w": ctx.var(wname(nxt[1])),
                     "d_w": ctx.var(wname(nxt[3]))}
            pi = ctx.const(layout.pis[i]) if i in layout.pis else None
            for cname, comp in rowsem.row_components(sel, wires, pi):
                ds = _disjuncts(comp, lin_memo, exp_memo)
                if not ds:
                    continue
                vs = set()
                for lf in ds:
                    vs |= {k for k in lf if k != 1}
                loose = [v for v in vs if bounds.get(v, full) == full]
                if len(loose) != 1:
                    continue
                t = loose[0]
                lo_all, hi_all, ok = None, None, True
                for lf in ds:
                    ct = lf.get(t, 0)
                    if ct not in (1, -1):
                        if ct == 0:
                            continue  # this disjunct does not mention t: no information
                        ok = False
                        break
                    lo = hi = -lf.get(1, 0) * ct
                    for k, c in lf.items():
                        if k in (1, t):
                            continue
                        blo, bhi = bounds.get(k, full)
                        cc = -c * ct
                        if cc > 0:
                            lo += cc * blo
                            hi += cc * bhi
                        else:
                            lo += cc * bhi
                            hi += cc * blo
                    lo_all = lo if lo_all is None else min(lo_all, lo)
                    hi_all = hi if hi_all is None else max(hi_all, hi)
                if not ok or lo_all is None:
                    continue
                if any(lf.get(t, 0) == 0 for lf in ds):
                    continue
                if lo_all < 0 or hi_all >= R - 1:
                    continue
                # lemma
                q = Query(tag=f"L{len(lemmas)}")
                for v in vs:
                    blo, bhi = bounds.get(v, full)
                    q.var(v, blo, bhi)
                q.add(q.zero(comp, positive=True))
                tv = q.var(t)
                q.add(f"(not (and (<= {lo_all} {tv}) (<= {tv} {hi_all})))")
                lemmas.append((f"r{i}/{cname}/{t}", q))
                bounds[t] = (lo_all, hi_all)
                changed = True
        if not changed:
            break
    return bounds, lemmas


def apply_bounds(q, bounds):
    """declare the variables of q with the (lemma-justified) bounds; must be
    called before encoding"""
    for v, (lo, hi) in bounds.items():
        q.var(v, lo, hi)
