"""Hand-written JubJub arithmetic (twisted Edwards -x^2 + y^2 = 1 + d x^2 y^2
over the BLS12-381 scalar field) used as the reference for the fixed-base
checks.  Never derived from the code under check."""
from smt import R, EDWARDS_D

# order of the prime-order subgroup (the JubJub scalar field modulus)
RJ = 0x0e7db4ea6533afa906673b0101343b00a6682093ccc81082d0970e5ed6f72cb7
IDENTITY = (0, 1)


def inv(a):
    return pow(a % R, R - 2, R)


def on_curve(p):
    x, y = p
    return (-x * x + y * y - 1 - EDWARDS_D * x * x % R * y * y) % R == 0


def add(p, q):
    x1, y1 = p
    x2, y2 = q
    t = EDWARDS_D * x1 * x2 % R * y1 * y2 % R
    x3 = (x1 * y2 + y1 * x2) * inv(1 + t) % R
    y3 = (y1 * y2 + x1 * x2) * inv(1 - t) % R
    return (x3, y3)


def neg(p):
    return ((-p[0]) % R, p[1])


def double(p):
    return add(p, p)


def mul(k, p):
    """[k]p for any integer k (double and add)"""
    if k < 0:
        return mul(-k, neg(p))
    acc = IDENTITY
    base = p
    while k:
        if k & 1:
            acc = add(acc, base)
        base = double(base)
        k >>= 1
    return acc


def table(g, rounds=256):
    """[2^(rounds-1-i)]g for i in 0..rounds (most significant first)"""
    out = [g]
    for _ in range(rounds - 1):
        out.append(double(out[-1]))
    out.reverse()
    return out


def signed_binary(t, rounds=256):
    """digits in {-1,0,1}, most significant first, with sum d_i 2^(rounds-1-i) = t"""
    sgn = -1 if t < 0 else 1
    a = abs(t)
    if a >> rounds:
        raise ValueError("not representable")
    return [sgn * ((a >> (rounds - 1 - i)) & 1) for i in range(rounds)]
