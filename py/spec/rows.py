"""Hand-written row relations of the five gate families (from the PLONK /
TurboPLONK gate definitions documented in docs/ and the widget doc comments).
Never derived from the code under check."""
from smt import EDWARDS_D


def delta(f):
    return f * (f - 1) * (f - 2) * (f - 3)


def arith(v):
    return (v["q_m"] * v["a"] * v["b"] + v["q_l"] * v["a"] + v["q_r"] * v["b"]
            + v["q_o"] * v["c"] + v["q_f"] * v["d"] + v["q_c"]) * v["q_arith"]


def range_components(v):
    return [delta(v["c"] - 4 * v["d"]), delta(v["b"] - 4 * v["c"]),
            delta(v["a"] - 4 * v["b"]), delta(v["d_w"] - 4 * v["a"])]


def range_(v):
    k = v["k_range"]
    c = range_components(v)
    return v["q_range"] * k * (c[0] + k**2 * c[1] + k**4 * c[2] + k**6 * c[3])


def logic_components(v):
    A = v["a_w"] - 4 * v["a"]
    B = v["b_w"] - 4 * v["b"]
    D = v["d_w"] - 4 * v["d"]
    w = v["c"]
    F = w * (w * (4 * w - 18 * (A + B) + 81) + 18 * (A * A + B * B) - 81 * (A + B) + 83)
    E = 3 * (A + B + D) - 2 * F
    Bq = v["q_c"] * (9 * D - 3 * (A + B))
    return [delta(A), delta(B), delta(D), w - A * B, Bq + E]


def logic(v):
    k = v["k_logic"]
    c = logic_components(v)
    return v["q_logic"] * k * (c[0] + k**2 * c[1] + k**4 * c[2] + k**6 * c[3] + k**8 * c[4])


def fixed_components(v):
    bit = v["d_w"] - 2 * v["d"]
    y_alpha = bit * bit * (v["q_r"] - 1) + 1
    x_alpha = bit * v["q_l"]
    x3, y3 = v["a_w"], v["b_w"]
    acc_x, acc_y, xy_alpha = v["a"], v["b"], v["c"]
    return [
        bit * (bit - 1) * (bit + 1),
        bit * v["q_c"] - xy_alpha,
        x3 + x3 * xy_alpha * acc_x * acc_y * EDWARDS_D - (acc_x * y_alpha + acc_y * x_alpha),
        y3 - y3 * xy_alpha * acc_x * acc_y * EDWARDS_D - (acc_y * y_alpha + acc_x * x_alpha),
    ]


def fixed(v):
    k = v["k_fixed"]
    c = fixed_components(v)
    return v["q_fixed"] * k * (c[0] + k**2 * c[1] + k**4 * c[2] + k**6 * c[3])


def var_components(v):
    x1, y1, x2, y2 = v["a"], v["b"], v["c"], v["d"]
    x3, y3, x1y2 = v["a_w"], v["b_w"], v["d_w"]
    y1x2 = y1 * x2
    return [
        x1 * y2 - x1y2,
        x1y2 + y1x2 - (x3 + x3 * EDWARDS_D * x1y2 * y1x2),
        y1 * y2 + x1 * x2 - (y3 - y3 * EDWARDS_D * x1y2 * y1x2),
    ]


def var(v):
    k = v["k_var"]
    c = var_components(v)
    return v["q_var"] * k * (c[0] + k**2 * c[1] + k**4 * c[2])


ALL = {"arith": arith, "range": range_, "logic": logic, "fixed": fixed, "var": var}
