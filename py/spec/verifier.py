"""Hand-written specification of the PLONK (TurboPLONK, 4 wires, 5 custom
gate families) verifier as used by dusk-plonk, from the PLONK paper (§8.3,
"verifier algorithm") and docs/: the acceptance polynomial in discrete-log
form, and the transcript sequence.  Never derived from the code under check.

Group elements are represented by their discrete logs; the pairing check
e(A, x_h) * e(B, h) == 1  is  A*ok_xh + B*ok_h == 0.
"""
from smt import R
from spec import rows

K1, K2, K3 = 7, 13, 17
GEN = 7


def root_of_unity(size):
    """primitive size-th root of unity used by the evaluation domain
    (size a power of two): 7^((r-1)/2^32) raised to 2^32/size"""
    w = pow(GEN, (R - 1) >> 32, R)
    return pow(w, (1 << 32) // size, R)


CHALLENGE_LABELS = ["beta", "gamma", "alpha", "range separation challenge", "logic separation challenge",
                    "fixed base separation challenge", "variable base separation challenge", "z_challenge",
                    "v_challenge", "v_w_challenge", "u_challenge"]


def acceptance(ctx, v, ch, n_constraints, pi_rows, pis, version):
    """v: dict name -> Expr for proof elements / vk commitments / opening key;
    ch: dict label -> Expr for the challenges; returns the dlog of the pairing
    product (accept <=> 0)."""
    size = 1
    while size < n_constraints:
        size *= 2
    w = root_of_unity(size)
    beta, gamma, alpha = ch["beta"], ch["gamma"], ch["alpha"]
    z, vc, vw, u = ch["z_challenge"], ch["v_challenge"], ch["v_w_challenge"], ch["u_challenge"]
    zn = z ** size
    zh = zn - 1
    ninv = pow(size, R - 2, R)
    l1 = zh * ((z - 1) * size).inv()
    pi_eval = ctx.const(0)
    for row, p in zip(pi_rows, pis):
        winv = pow(w, (R - 1 - row) % (R - 1), R)  # w^-row
        pi_eval = pi_eval + p * zh * ((winv * z - 1) * size).inv()
    a, b, c, d = v["a_eval"], v["b_eval"], v["c_eval"], v["d_eval"]
    s1, s2, s3, ze = v["s1_eval"], v["s2_eval"], v["s3_eval"], v["z_eval"]
    r0 = (pi_eval - l1 * alpha * alpha
          - alpha * (a + beta * s1 + gamma) * (b + beta * s2 + gamma) * (c + beta * s3 + gamma)
          * (d + gamma) * ze)
    # gate families: the row relations with wires := evaluations and the family
    # selector := its commitment (shared q_c/q_l/q_r enter through their evaluations)
    wires = {"a": a, "b": b, "c": c, "d": d, "a_w": v["a_w_eval"], "b_w": v["b_w_eval"], "d_w": v["d_w_eval"],
             "k_range": ch["range separation challenge"], "k_logic": ch["logic separation challenge"],
             "k_fixed": ch["fixed base separation challenge"], "k_var": ch["variable base separation challenge"]}
    ar = dict(wires, q_m=v["vk_q_m"], q_l=v["vk_q_l"], q_r=v["vk_q_r"], q_o=v["vk_q_o"], q_f=v["vk_q_f"],
              q_c=v["vk_q_c"], q_arith=v["q_arith_eval"])
    D = rows.arith(ar)
    D = D + rows.range_(dict(wires, q_range=v["vk_q_range"]))
    D = D + rows.logic(dict(wires, q_logic=v["vk_q_logic"], q_c=v["q_c_eval"]))
    D = D + rows.fixed(dict(wires, q_fixed=v["vk_q_fixed"], q_l=v["q_l_eval"], q_r=v["q_r_eval"],
                            q_c=v["q_c_eval"]))
    D = D + rows.var(dict(wires, q_var=v["vk_q_var"]))
    # permutation
    D = D + ((a + beta * z + gamma) * (b + beta * K1 * z + gamma) * (c + beta * K2 * z + gamma)
             * (d + beta * K3 * z + gamma) * alpha + l1 * alpha * alpha + u) * v["z_comm"]
    D = D - (a + beta * s1 + gamma) * (b + beta * s2 + gamma) * (c + beta * s3 + gamma) * alpha * beta * ze \
        * v["vk_s4"]
    # quotient
    D = D - zh * (v["t_low"] + zn * v["t_mid"] + zn * zn * v["t_high"] + zn * zn * zn * v["t_fourth"])
    # batched openings
    comm_z = [v["a_comm"], v["b_comm"], v["c_comm"], v["d_comm"], v["vk_s1"], v["vk_s2"], v["vk_s3"]]
    eval_z = [a, b, c, d, s1, s2, s3]
    if version in ("2", "3"):
        comm_z += [v["vk_q_arith"], v["vk_q_c"], v["vk_q_l"], v["vk_q_r"]]
        eval_z += [v["q_arith_eval"], v["q_c_eval"], v["q_l_eval"], v["q_r_eval"]]
    F = D
    E = -r0
    p = vc
    for cm, ev in zip(comm_z, eval_z):
        F = F + p * cm
        E = E + p * ev
        p = p * vc
    # shifted openings at z*w: z (coefficient u), a, b, d (coefficients u*v_w^i)
    E = E + u * ze
    q = u * vw
    for cm, ev in ((v["a_comm"], v["a_w_eval"]), (v["b_comm"], v["b_w_eval"]), (v["d_comm"], v["d_w_eval"])):
        F = F + q * cm
        E = E + q * ev
        q = q * vw
    left = -(v["w_z"] + u * v["w_zw"])
    right = z * v["w_z"] + u * z * w * v["w_zw"] + F - E * v["ok_g"]
    return left * v["ok_xh"] + right * v["ok_h"]


def transcript_sequence(version, label, n_constraints, n_pi):
    """the protocol's absorb/squeeze order as (kind, label, payload-name)"""
    seq = [("m", "dom-sep", ("bytes", label)), ("m", "dom-sep", ("bytes", b"circuit_size")),
           ("m", "n", ("u64", n_constraints))]
    for lab, name in (("q_m", "vk_q_m"), ("q_l", "vk_q_l"), ("q_r", "vk_q_r"), ("q_o", "vk_q_o"),
                      ("q_c", "vk_q_c"), ("q_f", "vk_q_f"), ("q_arith", "vk_q_arith"), ("q_range", "vk_q_range"),
                      ("q_logic", "vk_q_logic"), ("q_variable_group_add", "vk_q_var"),
                      ("q_fixed_group_add", "vk_q_fixed"), ("s_sigma_1", "vk_s1"), ("s_sigma_2", "vk_s2"),
                      ("s_sigma_3", "vk_s3")):
        seq.append(("m", lab, ("g1", name)))
    # V3 binds the fourth permutation commitment; V1/V2 keep the deployed quirk of
    # absorbing s_sigma_1 a second time under the s_sigma_4 label
    seq.append(("m", "s_sigma_4", ("g1", "vk_s4" if version == "3" else "vk_s1")))
    seq += [("m", "dom-sep", ("bytes", b"circuit_size")), ("m", "n", ("u64", n_constraints))]
    for i in range(n_pi):
        seq.append(("m", "pi", ("s", f"pi{i}")))
    for nm in ("a_comm", "b_comm", "c_comm", "d_comm"):
        seq.append(("m", nm, ("g1", nm)))
    seq += [("c", "beta"), ("m", "beta", ("ch", "beta")), ("c", "gamma"), ("m", "z_comm", ("g1", "z_comm")),
            ("c", "alpha"), ("c", "range separation challenge"), ("c", "logic separation challenge"),
            ("c", "fixed base separation challenge"), ("c", "variable base separation challenge")]
    for lab, nm in (("t_low_comm", "t_low"), ("t_mid_comm", "t_mid"), ("t_high_comm", "t_high"),
                    ("t_fourth_comm", "t_fourth")):
        seq.append(("m", lab, ("g1", nm)))
    seq.append(("c", "z_challenge"))
    for lab, nm in (("a_eval", "a_eval"), ("b_eval", "b_eval"), ("c_eval", "c_eval"), ("d_eval", "d_eval"),
                    ("s_sigma_1_eval", "s1_eval"), ("s_sigma_2_eval", "s2_eval"), ("s_sigma_3_eval", "s3_eval"),
                    ("z_eval", "z_eval"), ("a_w_eval", "a_w_eval"), ("b_w_eval", "b_w_eval"),
                    ("d_w_eval", "d_w_eval"), ("q_arith_eval", "q_arith_eval"), ("q_c_eval", "q_c_eval"),
                    ("q_l_eval", "q_l_eval"), ("q_r_eval", "q_r_eval")):
        seq.append(("m", lab, ("s", nm)))
    seq += [("c", "v_challenge"), ("c", "v_w_challenge"), ("m", "w_z_chall_comm", ("g1", "w_z")),
            ("m", "w_z_chall_w_comm", ("g1", "w_zw")), ("c", "u_challenge")]
    return seq
