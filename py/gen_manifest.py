"""Generate /verif/MANIFEST.json from the table below."""
import json
import os
import subprocess

VERIF = os.path.dirname(os.path.dirname(os.path.abspath(__file__)))

CHECKS = {
    "C01": dict(
        cat="other", ref="§5 C01",
        text="Bounded solver verdict: (a) bit-vector translation of the MIR of compile_with_composer / trim / "
             "truncate: for ALL constraint counts and key lengths compilation succeeds <=> npot(c+6)+6 <= L-1, the "
             "key has npot(c+6)+7 powers (>= domain size + 6), no overflow/index panic feasible; (b) a completeness "
             "instance: the real compile+prove+verify on a tiny satisfied circuit with symbolic SRS and ALL blinders "
             "symbolic -- the verifier's acceptance polynomial of the honest proof is proven identically zero "
             "(interpolation in the SRS secret over deg+1 points, each for all blinder values).",
        note="(a) c, L < 2^40, Vec modelled by its length, preprocess opaque; (b) one tiny circuit (two in thorough), "
             "scripted challenges; all sequences of components / real sizes are outside",
        tech="MIR -> SMT-LIB bit-vectors (z3 QF_BV) + symbolic execution of the real prover/verifier + SMT"),
    "C02": dict(
        cat="other", ref="§5 C02",
        text="Bounded solver verdict on the symbolic run of the real verifier: the premises of the standard "
             "soundness argument -- each of the 15 evaluations and 11 commitments of a proof influences the "
             "acceptance polynomial (solver-confirmed witness; otherwise replayed as an accepted forgery), the "
             "batched selector commitments enter the opening part, the all-identity/all-zero proof leaves a "
             "non-zero acceptance polynomial, and every proof field is absorbed before the challenge that must "
             "depend on it.",
        note="the knowledge-soundness reduction itself is the standard argument and is not encoded; relies on "
             "C03 (acceptance polynomial == spec) established on the same runs",
        tech="symbolic execution of the real verifier + SMT (z3)"),
    "C03": dict(
        cat="other", ref="§5 C03",
        text="Bounded solver verdict: the real Verifier::try_from_bytes / Proof::from_bytes / "
             "verify_with_version run on symbolic proof fields, keys and public inputs (random-oracle transcript, "
             "discrete-log pairing); z3 shows acceptance polynomial == independent spec for V1/V2/V3 (cut-point "
             "lemmas + root identity), the absorbed transcript sequence equals the spec sequence term by term, "
             "and every path ends in Ok/Err (panic paths infeasible).",
        note="random-oracle model of merlin, discrete-log model of the groups (exact for cyclic prime-order "
             "groups), n in {4,7} quick / up to 16 thorough, <=3 public inputs; spec in py/spec/verifier.py",
        tech="symbolic execution of the real verifier (symbolic field + dlog groups + RO transcript) + SMT (z3)"),
    "C04": dict(
        cat="other", ref="§5 C04",
        text="Bounded solver verdict on the symbolic run of the real verifier: every public input and every VK "
             "commitment has a non-vanishing coefficient in the acceptance polynomial (solver-confirmed witness) "
             "and is absorbed before the first challenge; all (expected, provided) length pairs in [0,3]^2 end in "
             "InconsistentPublicInputsLen exactly on mismatch; V3 seeds a different transcript, V1/V2 acceptance "
             "polynomials differ; no feasible panic path.",
        note="random-oracle model; binding is stated at the level of differing commitments / label / sizes",
        tech="symbolic execution of the real verifier + SMT (z3)"),
    "C05": dict(
        cat="other", ref="§5 C05",
        text="Bounded solver verdict: the real widget row code, executed on a symbolic field, "
             "equals the documented gate relations for ALL selector, challenge and wire values; the real prover on a "
             "small circuit with SYMBOLIC witness values returns a verifying proof for the satisfying family, "
             "CircuitUnsatisfied for generic violations of one row / one copy constraint, and every panicking path "
             "is infeasible (feasible ones are replayed).",
        note="z3 decides integer polynomial identities mod r; trusted: primality of r, the "
             "symbolic dispatch of the vendored dependency copy (validated differentially each run), specs in py/spec",
        tech="symbolic execution of the real Rust code on a term-recording field + SMT (z3, Int mod r)"),
    "C06": dict(
        cat="other", ref="§5 C06",
        text="Bounded solver verdict: the real compile + Prover::prove run on a tiny concrete circuit with a symbolic "
             "SRS, the 14 blinders symbolic and scripted challenges; for ALL blinder values z3 proves that each wire "
             "commitment/evaluation carries exactly (b_2k + b_2k+1 X) Z_H, the permutation polynomial "
             "(b_8 + b_9 X + b_10 X^2) Z_H, the quotient shares the prescribed +/- b X^n re-randomisation, that every "
             "commitment and wire/z evaluation depends on randomness, and the RNG log shows exactly 14 draws of 64 bytes.",
        note="one tiny circuit/witness/challenge instance per seed (2 circuits quick, 3 thorough); structural "
             "coefficient extraction validated by random evaluation; independence of masks is the standard argument",
        tech="symbolic execution of the real prover (symbolic SRS + symbolic blinders) + SMT (z3)"),
    "C07": dict(
        cat="other", ref="§5 C07",
        text="Bounded solver verdict for the components whose witness generation does not decompose a witness into "
             "bits: each runs in the real composer on symbolic witnesses / point coordinates with every symbolic "
             "branch explored; all successful paths (per constant-parameter class) emit the identical shape with "
             "selectors free of witness variables, and every panicking or shape-deviating path is shown infeasible "
             "by z3 (deviating paths that are feasible are replayed on the real build).",
        note="range/logic/truncate/decomposition/mul_point/mul_generator are outside (to_bits on the witness); "
             "conditions on 252-step scalar multiplications are closed by the cited completeness of the Edwards law",
        tech="symbolic execution of the real composer with path exploration + SMT feasibility queries (z3)"),
    "C08": dict(
        cat="other", ref="§5 C08",
        text="Bounded solver verdict: each component is executed by the real composer on symbolic witnesses and "
             "symbolic selector coefficients (all branches on symbolic values explored); z3 shows emitted row == "
             "documented relation, computed witnesses satisfy the rows, rows imply the documented result, and "
             "returned witnesses are unique -- for ALL field values.",
        note="finite list of wire-sharing patterns (quick 5, thorough all 15); integral-domain rewriting; "
             "row semantics from the real arithmetic widget",
        tech="symbolic execution of the real composer with path exploration + SMT (z3)"),
    "C09": dict(
        cat="other", ref="§5 C09",
        text="Bounded solver verdict per width: gates extracted from the real component_range_bits / "
             "component_range, row semantics from the real range/arithmetic widgets; z3 shows that no assignment "
             "of the witness and of ANY internal accumulator satisfies the rows with value >= 2^w.",
        note="integral-domain rewriting (r prime), Schwartz-Zippel over the separation challenge, "
             "bounded-quotient LIA encoding; satisfiability direction only at the honest witness of 2^w-1",
        tech="constraint extraction from the real composer + symbolic row semantics + SMT (z3 LIA/NIA)"),
    "C10": dict(
        cat="other", ref="§5 C10",
        text="Bounded solver verdict per pair count and operation: gates extracted from the real "
             "append_logic_and/xor; a row lemma proven from the REAL logic widget terms (row <=> quads in 0..3, "
             "product wire = A*B, output quad = A op B); z3 shows rows => digit-wise AND/XOR relation over the "
             "integers and final accumulators = inputs mod 4^P, for ALL values of inputs and internal wires.",
        note="digit-wise quad relation => bitwise operation is the base-4 definition (tied to bit-vector ops by "
             "the solver for P<=4); range sub-blocks replaced by re-proven summaries; solver-checked bound lemmas",
        tech="constraint extraction from the real composer + symbolic row semantics + SMT (z3 LIA/NIA)"),
    "C11": dict(
        cat="other", ref="§5 C11",
        text="Bounded solver verdict per width: gates extracted from the real component_truncate / "
             "component_decomposition; z3 shows rows => returned value = x mod 2^N (truncate) and rows => bits "
             "boolean and x = sum bit_i 2^i over the integers (decomposition, N<=254) for ALL values of the input "
             "and of every internal wire. N=255/256 decomposition aliases are a recorded known finding.",
        note="range-check sub-blocks are replaced by value<2^k summaries that are re-proven in the same run; "
             "solver-checked bound lemmas; uniqueness of binary expansion is cited (re-decided for N<=8); "
             "'satisfiable for every input' only at honest witnesses of boundary inputs",
        tech="constraint extraction from the real composer + symbolic row semantics + SMT (z3 LIA/NIA)"),
    "C12": dict(
        cat="other", ref="§5 C12",
        text="Bounded solver verdict on rows emitted by the real composer run on symbolic coordinates: the two rows "
             "of add_point_gates == the three twisted-Edwards addition equations (wiring included), the witness "
             "computed by the real code satisfies them and equals the affine group-law formula, outputs are unique "
             "for non-zero denominators; neg/select_identity/select_point rows => documented result, unique, "
             "select_identity unsatisfiable for a non-boolean bit; sub and mul_point are structural compositions "
             "(all 252 rounds matched on the extracted layout) of the proven pieces.",
        note="completeness of the Edwards law on curve points, associativity and subgroup closure are cited, so "
             "'exactly the group sum / [s]P' is relative to those lemmas",
        tech="symbolic execution of the real composer + symbolic row semantics + SMT (z3)"),
    "C13": dict(
        cat="other", ref="§5 C13",
        text="Bounded solver verdict: the 12 rows emitted by assert_torsion_free_point (real composer on symbolic "
             "coordinates) equal, row by row, the curve equation of the auxiliary point Q, three Edwards doublings and "
             "P = 8Q for ALL (P,Q); every path of append_point / append_public_point / assert_equal_public_point / "
             "append_constant_point / the generator check on a symbolic extended point is classified by its "
             "comparisons (curve and T-consistency comparisons proven equal to the spec polynomials; torsion/identity "
             "comparisons identified with the dependency's predicates) and accepts exactly when the spec predicate "
             "holds; Z = 0 always errors; panic paths infeasible.",
        note="cofactor-8 argument and the dependency's scalar multiplication are cited/trusted; acceptance is decided "
             "over the explored paths (first 9 comparisons flipped exhaustively)",
        tech="symbolic execution of the real composer with path exploration + SMT (z3)"),
    "C19": dict(
        cat="other", ref="§5 C19",
        text="Bounded solver verdict: the real fft/ifft/coset_fft/coset_ifft, Polynomial arithmetic, ruffini, "
             "evaluate, batch_inversion and the Lagrange/vanishing/barycentric closed forms run on symbolic vectors; "
             "z3 proves every output coordinate equal to the textbook definition (cut-point lemmas for the "
             "butterflies; all truncation / zero-pattern paths explored).",
        note="domain sizes 2^0..2^3 (thorough 2^5), polynomial length <=3 (5), batch inversion length <=3 (4); "
             "thread counts and the >=2^12 parallel strategies are outside the claim",
        tech="symbolic execution of the real kernels + SMT (z3) with cut-point sweeping"),
    "C20": dict(
        cat="other", ref="§5 C20",
        text="Bounded solver verdict: the real PublicParameters::setup (RNG scripted to symbolic draws), trim, "
             "commit, compute_aggregate_witness, flatten and batch_check in the discrete-log group model; z3 proves "
             "SRS = powers of one secret with matching G2 elements, commitments are the linear image of the "
             "coefficient vector (Err beyond the key degree on every path), honest aggregated openings satisfy the "
             "check, the batch acceptance polynomial equals the textbook one and binds every evaluation, point, "
             "witness and commitment, and the batch challenge absorbs the complete batch.",
        note="SRS degree <=4 (thorough 8), <=3 polynomials per aggregate, batch size <=2 (thorough 4); "
             "random-oracle transcript; KZG binding is the standard assumption",
        tech="symbolic execution of the real KZG code (symbolic field + dlog groups) + SMT (z3)"),
    "C15": dict(
        cat="other", ref="§5 C15",
        text="Bounded solver verdict (capacity part): bit-vector translation of the MIR of "
             "Compiler::max_constraints, compile_with_composer/trim/truncate and packed_size_limit: for ALL constraint "
             "counts (>= 4) and key lengths, c <= max_constraints(pp) <=> direct compilation's trim succeeds (the two "
             "routes accept exactly the same capacities), no overflow panic, packed_size_limit exact or Err only on "
             "overflow.",
        note="identity of serialized keys between the two routes and decompression bounds are not yet covered here "
             "(see DESIGN.md C15); c, L < 2^40",
        tech="MIR -> SMT-LIB bit-vectors (z3 QF_BV)"),
    "C14": dict(
        cat="other", ref="§10.5 C14",
        text="Bounded solver verdict on the rows emitted by the real component_mul_generator (row semantics from the "
             "real fixed-base widget), for ALL values of the scalar, the 256 signed digits and every accumulator: the "
             "canonicality rows force s < r_jubjub; 256 solver-checked round lemmas plus the leading-zero pin bound "
             "the centred scalar accumulator by 2^253, so the closing row is an INTEGER equality s = sum e_k 2^(255-k); "
             "each round's x/y/xy components equal the cross-multiplied Edwards sum of the accumulator and "
             "e_k*[2^(255-k)]G (table entries symbolic; the 256 constants compared with an independent doubling "
             "chain); honest witnesses at boundary scalars satisfy the rows and return the independently computed "
             "[s]G; non-canonical scalars are refused.",
        note="generators: standard and NUMS (thorough: three more multiples); completeness of the Edwards law on curve "
             "points and the group-law summation over the 256 rounds are cited; satisfiability for every canonical "
             "scalar is decided at boundary scalars only",
        tech="gate extraction from the real composer + symbolic widget rows + SMT (z3 LIA / NIA with integral-domain "
             "rewriting, solver-checked lemma chain)"),
    "C16": dict(
        cat="other", ref="§10.5 C16",
        text="Bounded symbolic verdict: the real encoders and decoders of Prover, Verifier, Proof and "
             "PublicParameters (and the key / polynomial / evaluation codecs below them) run on symbolic contents "
             "(SRS secret and bases, every selector constant, blinders, an arbitrary 26-component proof, arbitrary "
             "public inputs); for all values of those contents decode(encode(x)) re-encodes identically, the decoded "
             "prover computes the same proof terms from the same draws and the decoded verifier evaluates the same "
             "acceptance comparisons on an honest and on an arbitrary proof.",
        note="listed circuit shapes only (<= 46 rows quick, <= 2110 rows thorough; 0..5 public inputs; with and "
             "without range/logic gates); deciding step is equality of hash-consed terms (syntactic case of the "
             "field identity, no SMT call needed on the current tree); bit-level canonicity of the dependency's "
             "scalar/point codecs is assumed; byte-level canonicity of the proof decoder itself is the Kani harness "
             "proof_from_bytes run under C17",
        tech="symbolic execution of the real (de)serialization, proving and verification code (symbolic field + "
             "dlog groups + random-oracle transcript); term identity, native replay of any difference"),
}

CHECKS["C17"] = dict(
    cat="other", ref="§10.5 C17, §10.12",
    text="Bounded solver verdict, two engines. (M) MIR -> bit-vector path conditions of Prover::try_from_bytes and "
         "Verifier::try_from_bytes with slices modelled by length: for ALL input lengths and ALL header values no "
         "slice-index, expect or overflow panic is feasible; and of CompressedCircuit::from_bytes / unpack_bounded / "
         "unpack_vec: for ALL capacities m and ALL integers read from the input every allocation-sizing call "
         "(with_capacity, vec![x; n], counted collect, inflate limit) requests at most 857*m+30+4096 elements (loops: 0 "
         "and 1 iteration; counterexamples replayed on the real decoder under a counting allocator). (K) Kani/CBMC harnesses on the real crate feed arbitrary "
         "byte strings of bounded length to Polynomial::from_slice, CommitKey::from_slice, Proof::from_bytes (quick) "
         "and CommitKey::from_raw_var_bytes (thorough): no panic, overflow, out-of-bounds access or "
         "unwinding-assertion failure. (S) symbolic execution with invalid-capable group elements (dlog + torsion + "
         "off-curve components) and kappa-tagged scalars: on every accepting path of CommitKey::from_raw_var_bytes / "
         "from_slice, OpeningKey::from_slice, PublicParameters::from_slice, Polynomial::from_slice, "
         "Verifier::try_from_bytes and Prover::try_from_bytes z3 shows every element on-curve, torsion-free (opening "
         "key: non-identity) and every scalar canonical.",
    note="partial: curve/field kernels of the dependency are contract bodies under cfg(kani); compressed circuits "
         "(inflate / MessagePack), allocation bounds, ProverKey::from_slice bodies and 'usable without panicking' are "
         "outside; Kani bounds are <= 67..1008 bytes per harness",
    tech="MIR -> SMT-LIB bit-vectors (cvc5 --solve-bv-as-int, z3); symbolic execution of the real decoders (group "
         "model with torsion/off-curve components) + z3; Kani 0.68 / CBMC 6.11 bounded model checking with "
         "unwinding assertions")

NOT_APPLICABLE = {
    "C18": "quantifies over thread schedules, pool sizes, processes and feature builds: Kani/CBMC has no "
           "concurrency model, and the parallel paths start at 2^12 elements, far beyond any symbolic bound "
           "(DESIGN.md §C18)",
}

ALL = ["C%02d" % i for i in range(1, 21)]


def main():
    hooks = subprocess.check_output(
        ["git", "-C", "/repo", "log", "--format=%H %s"], text=True).splitlines()
    hook_commits = [l.split()[0] for l in hooks if "verif hooks" in l]
    checks = []
    ENG = {"C15": "mir+smt and symfield+z3", "C17": "mir+smt, symfield+z3 and kani", "C01": "symfield+z3 and mir+smt"}
    for pid, c in sorted(CHECKS.items()):
        checks.append({
            "property_id": pid,
            "quick_cmd": f"./check {pid} --tier quick",
            "thorough_cmd": f"./check {pid} --tier thorough",
            "evidence_file": f"/verif/evidence/{pid}.json",
            "replay_cmd_template": f"./check {pid} --replay {{path}}",
            "engine": ENG.get(pid, "symfield+z3"),
            "level_claimed": {"category": c["cat"], "text": c["text"], "design_ref": c["ref"]},
            "level_note": c["note"],
            "technique": c["tech"],
        })
    na = []
    for pid in ALL:
        if pid in CHECKS:
            continue
        na.append({"property_id": pid,
                   "reason": NOT_APPLICABLE.get(pid, "check not built yet (work in progress, see DESIGN.md §8)")})
    m = {
        "version": 1,
        "setup_cmd": "./setup.sh",
        "hooks": {
            "guard": "plonk_verif",
            "enable": "RUSTFLAGS='--cfg plonk_verif' (set in /verif/sym/.cargo/config.toml and /verif/real/.cargo/config.toml)",
            "baseline_off_cmd": "cd /repo && cargo test --workspace --no-fail-fast --offline",
            "source_commits": hook_commits,
            "add_only": True,
        },
        "engines": [
            {"name": "symfield+z3", "path": "/verif/vendor/dusk-bls12_381-sym, /verif/drivers, /verif/py",
             "serves_properties": sorted(CHECKS.keys()),
             "kind_free_text": "symbolic execution of the real Rust code by a term-recording copy of the "
                               "dependency dusk-bls12_381; terms decided by z3 over the integers mod r"},
            {"name": "mir+smt", "path": "/verif/py/mir.py, /verif/py/mirdump.py, /verif/py/checks/capacity.py, "
                                        "/verif/py/checks/decoder_lengths.py",
             "serves_properties": ["C01", "C15", "C17"],
             "kind_free_text": "path-enumerating interpreter of the nightly compiler's MIR dump of /repo's current "
                               "source -> QF_BV path conditions, decided by cvc5 (integer encoding) / z3"},
            {"name": "kani", "path": "/verif/kani, /verif/vendor/dusk-bls12_381-sym (cfg(kani) contract bodies)",
             "serves_properties": ["C17"],
             "kind_free_text": "Kani 0.68 / CBMC 6.11 proof harnesses over the real crate, arbitrary byte strings "
                               "of bounded length, unwinding assertions on"},
        ],
        "checks": checks,
        "not_applicable": na,
        "notes": "All checks are bounded solver verdicts; bounds, functions encoded, queries and solver time are in each evidence file.",
    }
    with open(os.path.join(VERIF, "MANIFEST.json"), "w") as f:
        json.dump(m, f, indent=1)


if __name__ == "__main__":
    main()
