"""Entry point: ./check <ID> [--tier quick|thorough] [--replay path]"""
import argparse
import importlib
import json
import os
import sys

sys.path.insert(0, os.path.dirname(os.path.abspath(__file__)))
import framework as fw


def main():
    ap = argparse.ArgumentParser()
    ap.add_argument("prop")
    ap.add_argument("--tier", default=os.environ.get("VERIF_TIER", "quick"))
    ap.add_argument("--replay")
    ap.add_argument("--no-build", action="store_true")
    a = ap.parse_args()
    seed = int(os.environ.get("VERIF_SEED", "0") or 0)
    prop = a.prop.upper()
    mod = importlib.import_module(f"checks.{prop.lower()}")
    if a.replay:
        sys.exit(mod.replay(a.replay))
    run = fw.Run(prop, a.tier, seed, level=getattr(mod, "LEVEL", "other"))
    if not a.no_build:
        ok, logs, secs = fw.build(getattr(mod, "BUILDS", ("sym", "real")))
        run.extra["build_s"] = round(secs, 1)
        if not ok:
            for w, l in logs.items():
                sys.stdout.write(l[-3000:])
            run.inconclusive.append("driver build against /repo's working tree failed")
            sys.exit(run.finish())
    try:
        mod.run(run)
    except Exception as e:
        import traceback
        traceback.print_exc()
        run.inconclusive.append(f"check machinery error: {e!r}"[:500])
    sys.exit(run.finish(fw.load_known_findings()))


if __name__ == "__main__":
    main()
