"""Entry point: ./check <ID> [--tier quick|thorough] [--replay path]"""
import argparse
import importlib
import json
import os
import sys

sys.path.insert(0, os.path.dirname(os.path.abspath(__file__)))
import framework as fw

sys.setrecursionlimit(200000)


def replay_file(path, seed, no_build):
    """Re-run a recorded counterexample against the real build (unpatched
    dependencies, hooks on).  exit 1 = reproduces, 0 = does not."""
    from checks.common import real_at
    if not no_build:
        ok, logs, _ = fw.build(("real",))
        if not ok:
            print("build failed")
            return 2
    d = json.load(open(path))
    det = d.get("replay_detail") or {}
    if "gadget" in det:
        o = real_at(["prove_gadget"] + [str(x) for x in det["gadget"]], det["env"], seed)["outputs"]
        print(json.dumps({"forged_assignment_proved": o["proved"], "verified": o["verified"],
                          "documented_result_violated": det.get("violated")}, indent=1))
        return 1 if o["verified"] else 0
    if "driver" in det:
        o = real_at(det["driver"], det["env"], seed)["outputs"]
        real = o
        for k in det["output"].split("/"):
            real = real[int(k)] if isinstance(real, list) else real[k]
        print(json.dumps({"real": real, "spec": det["spec"]}, indent=1))
        return 1 if int(real, 16) != int(det["spec"], 16) else 0
    print("no generic replay recipe recorded in", path, "- see the 'replay_detail' and 'smt' fields")
    return 2


def main():
    ap = argparse.ArgumentParser()
    ap.add_argument("prop")
    ap.add_argument("--tier", default=os.environ.get("VERIF_TIER", "quick"))
    ap.add_argument("--replay")
    ap.add_argument("--no-build", action="store_true")
    a = ap.parse_args()
    seed = int(os.environ.get("VERIF_SEED", "0") or 0)
    prop = a.prop.upper()
    mod = importlib.import_module(f"checks.{prop.lower()}")
    if a.replay:
        sys.exit(replay_file(a.replay, seed, a.no_build))
    run = fw.Run(prop, a.tier, seed, level=getattr(mod, "LEVEL", "other"))
    if not a.no_build:
        ok, logs, secs = fw.build(getattr(mod, "BUILDS", ("sym", "real")))
        run.extra["build_s"] = round(secs, 1)
        if not ok:
            for w, l in logs.items():
                sys.stdout.write(l[-3000:])
            run.inconclusive.append("driver build against /repo's working tree failed")
            sys.exit(run.finish())
    try:
        mod.run(run)
    except Exception as e:
        import traceback
        traceback.print_exc()
        run.inconclusive.append(f"check machinery error: {e!r}"[:500])
    sys.exit(run.finish(fw.load_known_findings()))


if __name__ == "__main__":
    main()
