"""Field terms over F_r (BLS12-381 scalar field), their integer SMT-LIB2
encoding and solver plumbing.

Terms come from two places: (i) the term arena dumped by the symbolic drivers
(the *real* code executed on the symbolic field) and (ii) hand-written
specifications.  Both become `Expr` DAGs in one `Ctx`; the solver decides
`lhs =_F rhs` as `(lhs - rhs) mod r = 0` over the integers.
"""
import os
import re
import subprocess
import tempfile
import time

R = 0x73eda753299d7d483339d80809a1d80553bda402fffe5bfeffffffff00000001
RJ = 0x0e7db4ea6533afa906673b0101343b00a6682093ccc81082d0970e5ed6f72cb7
EDWARDS_D = 0x2a9318e74bfa2b48f5fd9207e6bd7fd4292d7f6d37579d2601065fd6d6343eb1


class Expr:
    __slots__ = ("ctx", "op", "args", "id")

    def __init__(self, ctx, op, args, id_):
        self.ctx, self.op, self.args, self.id = ctx, op, args, id_

    def _w(self, o):
        return o if isinstance(o, Expr) else self.ctx.const(o)

    def __add__(self, o):
        return self.ctx.mk("+", (self, self._w(o)))

    def __radd__(self, o):
        return self.ctx.mk("+", (self._w(o), self))

    def __sub__(self, o):
        return self.ctx.mk("-", (self, self._w(o)))

    def __rsub__(self, o):
        return self.ctx.mk("-", (self._w(o), self))

    def __mul__(self, o):
        return self.ctx.mk("*", (self, self._w(o)))

    def __rmul__(self, o):
        return self.ctx.mk("*", (self._w(o), self))

    def __neg__(self):
        return self.ctx.mk("n", (self,))

    def __pow__(self, k):
        assert isinstance(k, int) and k >= 0
        r = self.ctx.const(1)
        b = self
        while k:
            if k & 1:
                r = r * b
            b = b * b
            k >>= 1
        return r

    def inv(self):
        return self.ctx.mk("i", (self,))

    def __truediv__(self, o):
        return self * self._w(o).inv()

    def __repr__(self):
        return f"<e{self.id}:{self.op}>"


class Ctx:
    def __init__(self):
        self.tab = {}
        self.exprs = []

    def mk(self, op, args):
        # light constant folding keeps the DAG (and the SMT) small
        if op in "+-*" and all(a.op == "c" for a in args):
            x, y = args[0].args[0], args[1].args[0]
            v = {"+": x + y, "-": x - y, "*": x * y}[op] % R
            return self.const(v)
        if op == "n" and args[0].op == "c":
            return self.const(-args[0].args[0] % R)
        if op == "*":
            for i in (0, 1):
                if args[i].op == "c":
                    if args[i].args[0] == 0:
                        return self.const(0)
                    if args[i].args[0] == 1:
                        return args[1 - i]
        if op == "+":
            for i in (0, 1):
                if args[i].op == "c" and args[i].args[0] == 0:
                    return args[1 - i]
        if op == "-" and args[1].op == "c" and args[1].args[0] == 0:
            return args[0]
        key = (op,) + tuple(a.id for a in args)
        return self._intern(key, op, args)

    def _intern(self, key, op, args):
        e = self.tab.get(key)
        if e is None:
            e = Expr(self, op, args, len(self.exprs))
            self.exprs.append(e)
            self.tab[key] = e
        return e

    def var(self, name):
        return self._intern(("v", name), "v", (name,))

    def const(self, v):
        v = int(v) % R
        return self._intern(("c", v), "c", (v,))

    # ---- bundle import -------------------------------------------------
    def from_nodes(self, nodes, raw=True):
        """Import the arena of a symbolic driver.  With raw=True no folding is
        applied so node i of the bundle is exactly out[i]."""
        out = []
        for n in nodes:
            t = n[0]
            if t == "v":
                e = self.var(n[1])
            elif t == "c":
                e = self.const(int(n[1], 16))
            elif t in "+-*":
                a, b = out[n[1]], out[n[2]]
                e = self._intern((t, a.id, b.id), t, (a, b)) if raw else self.mk(t, (a, b))
            elif t in "ni":
                a = out[n[1]]
                e = self._intern((t, a.id), t, (a,)) if raw else self.mk(t, (a,))
            else:
                raise ValueError(n)
            out.append(e)
        return out


# ---------------------------------------------------------------- evaluation
def topo(roots):
    seen, order = set(), []
    stack = [(r, False) for r in roots]
    while stack:
        e, done = stack.pop()
        if done:
            order.append(e)
            continue
        if e.id in seen:
            continue
        seen.add(e.id)
        stack.append((e, True))
        if e.op not in "vc":
            for a in e.args:
                if a.id not in seen:
                    stack.append((a, False))
    return order


def evaluate(roots, env):
    """Evaluate in F_r.  Returns dict id->int or None (division by zero)."""
    val = {}
    for e in topo(roots):
        if e.op == "v":
            v = env[e.args[0]] % R
        elif e.op == "c":
            v = e.args[0]
        else:
            a = [val[x.id] for x in e.args]
            if any(x is None for x in a):
                v = None
            elif e.op == "+":
                v = (a[0] + a[1]) % R
            elif e.op == "-":
                v = (a[0] - a[1]) % R
            elif e.op == "*":
                v = (a[0] * a[1]) % R
            elif e.op == "n":
                v = -a[0] % R
            elif e.op == "i":
                v = pow(a[0], R - 2, R) if a[0] else None
        val[e.id] = v
    return val


def variables(roots):
    return sorted({e.args[0] for e in topo(roots) if e.op == "v"})


def has_inv(roots):
    return any(e.op == "i" for e in topo(roots))


def to_frac(ctx, roots):
    """Fraction form: each root -> (num, den) without Inv nodes.  Denominators
    are products of the inverted sub-terms' numerators."""
    fr = {}
    one = ctx.const(1)
    for e in topo(roots):
        if e.op in "vc":
            fr[e.id] = (e, one)
        elif e.op in "+-":
            (an, ad), (bn, bd) = fr[e.args[0].id], fr[e.args[1].id]
            if ad is bd:
                fr[e.id] = (ctx.mk(e.op, (an, bn)), ad)
            else:
                fr[e.id] = (ctx.mk(e.op, (an * bd, bn * ad)), ad * bd)
        elif e.op == "*":
            (an, ad), (bn, bd) = fr[e.args[0].id], fr[e.args[1].id]
            fr[e.id] = (an * bn, ad * bd)
        elif e.op == "n":
            an, ad = fr[e.args[0].id]
            fr[e.id] = (-an, ad)
        elif e.op == "i":
            an, ad = fr[e.args[0].id]
            fr[e.id] = (ad, an)
    return [fr[r.id] for r in roots]


def inv_args(roots):
    """the arguments of all Inv nodes (they must be non-zero on the path)"""
    return [e.args[0] for e in topo(roots) if e.op == "i"]


# ---------------------------------------------------------------- SMT output
def cstr(v, balanced=True):
    v %= R
    if balanced and v > R // 2:
        return f"(- {R - v})"
    return str(v)


def smt_defs(roots, var_decl=True, prefix="e"):
    """SMT-LIB text: declare-const for variables, define-fun per DAG node."""
    lines = []
    for e in topo(roots):
        if e.op == "i":
            raise ValueError("Inv node in SMT output: use to_frac first")
        n = f"{prefix}{e.id}"
        if e.op == "v":
            if var_decl:
                lines.append(f"(declare-const {vname(e.args[0])} Int)")
            lines.append(f"(define-fun {n} () Int {vname(e.args[0])})")
        elif e.op == "c":
            lines.append(f"(define-fun {n} () Int {cstr(e.args[0])})")
        elif e.op == "n":
            lines.append(f"(define-fun {n} () Int (- {prefix}{e.args[0].id}))")
        else:
            lines.append(
                f"(define-fun {n} () Int ({e.op} {prefix}{e.args[0].id} {prefix}{e.args[1].id}))"
            )
    return lines


def vname(name):
    return "v_" + re.sub(r"[^A-Za-z0-9_]", "_", name)


def ref(e, prefix="e"):
    return f"{prefix}{e.id}"


def is_zero_mod(e):
    return f"(= (mod {ref(e)} {R}) 0)"


# ---------------------------------------------------------------- solvers
SOLVERS = {
    "z3": ["z3-new", "-in"],
    "z3old": ["/usr/bin/z3", "-in"],
    "cvc5": ["cvc5", "--lang", "smt2", "--produce-models"],
    # bit-vector queries solved over the integers with mod-2^k semantics kept (linear
    # length arithmetic that bit-blasting does not finish)
    "cvc5int": ["cvc5", "--lang", "smt2", "--solve-bv-as-int=sum"],
}


class Result:
    def __init__(self, status, model, secs, raw, solver):
        self.status, self.model, self.secs, self.raw, self.solver = status, model, secs, raw, solver

    def __repr__(self):
        return f"Result({self.status}, {self.secs:.2f}s, {self.solver})"


def parse_model(text):
    """parse (get-value (...)) / (get-model) output for Int constants"""
    model = {}
    for m in re.finditer(r"\(define-fun\s+(\S+)\s+\(\)\s+Int\s+((?:\(-\s+\d+\))|\d+)\)", text):
        model[m.group(1)] = _int(m.group(2))
    for m in re.finditer(r"\((v_\S+|[A-Za-z_][A-Za-z0-9_]*)\s+((?:\(-\s+\d+\))|\d+)\)", text):
        model.setdefault(m.group(1), _int(m.group(2)))
    return model


def _int(s):
    s = s.strip()
    if s.startswith("("):
        return -int(re.sub(r"[^\d]", "", s))
    return int(s)


def run_solver(script, solver="z3", timeout=20, want_model=True):
    """Run one script.  Any `(error` line, `unknown`, timeout => not decided."""
    cmd = SOLVERS[solver]
    t0 = time.time()
    full = script
    try:
        p = subprocess.run(
            cmd, input=full, capture_output=True, text=True, timeout=timeout + 5
        )
        out = p.stdout + p.stderr
    except subprocess.TimeoutExpired:
        return Result("timeout", {}, time.time() - t0, "", solver)
    secs = time.time() - t0
    errs = [l for l in out.splitlines() if "(error" in l and "model is not available" not in l]
    if errs:
        return Result("error", {}, secs, out, solver)
    first = out.strip().splitlines()[0] if out.strip() else "empty"
    if first == "sat":
        return Result("sat", parse_model(out), secs, out, solver)
    if first == "unsat":
        return Result("unsat", {}, secs, out, solver)
    if first in ("unknown", "timeout"):
        return Result("unknown", {}, secs, out, solver)
    return Result("error", {}, secs, out, solver)


def header(timeout_s, solver="z3"):
    h = ["(set-logic ALL)"]
    if solver.startswith("z3"):
        h.append(f"(set-option :timeout {int(timeout_s * 1000)})")
    else:
        h.append(f"(set-option :tlimit-per {int(timeout_s * 1000)})")
    return h


def check(lines, asserts, solver="z3", timeout=20, get_model=True):
    s = header(timeout, solver) + list(lines) + [f"(assert {a})" for a in asserts]
    if lines and lines[0] == "; QF_BV":
        get_model = False   # bit-vector models are not parsed; status only
    s.append("(check-sat)")
    if get_model:
        s.append("(get-model)")
    script = "\n".join(s) + "\n"
    r = run_solver(script, solver, timeout)
    r.script = script
    return r


def check_batch(queries, solver="z3", timeout=20):
    """Several small queries in ONE solver process (push/pop); returns a list
    of Result.  Any `(error` line makes the whole batch inconclusive."""
    parts = header(timeout, solver)
    for lines, asserts in queries:
        parts.append("(push 1)")
        parts += list(lines)
        parts += [f"(assert {a})" for a in asserts]
        parts.append("(check-sat)")
        parts.append("(pop 1)")
    script = "\n".join(parts) + "\n"
    t0 = time.time()
    try:
        p = subprocess.run(SOLVERS[solver], input=script, capture_output=True, text=True,
                           timeout=timeout * len(queries) + 10)
        out = p.stdout + p.stderr
    except subprocess.TimeoutExpired:
        return [Result("timeout", {}, time.time() - t0, "", solver) for _ in queries]
    secs = time.time() - t0
    if "(error" in out:
        return [Result("error", {}, secs / len(queries), out[:2000], solver) for _ in queries]
    toks = [l.strip() for l in out.splitlines() if l.strip() in ("sat", "unsat", "unknown", "timeout")]
    if len(toks) != len(queries):
        return [Result("error", {}, secs / len(queries), out[:2000], solver) for _ in queries]
    return [Result("unknown" if t == "timeout" else t, {}, secs / len(queries), "", solver) for t in toks]
