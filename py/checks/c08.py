"""C08 -- arithmetic / equality / boolean / selection components are exact.

Every component is executed by the real composer on symbolic witnesses and
(where the API takes them) symbolic selector coefficients; all branches on
symbolic values are explored.  Per path:
  emit   : the emitted row polynomial == the documented relation (Type I)
  honest : the witness values computed by the real code satisfy every emitted
           row (satisfiability for ALL inputs; Type I with fractions)
  sound  : rows (with free internal witnesses) => documented result
  unique : two satisfying assignments with equal inputs have equal outputs
"""
import itertools

import framework as fw
import smt
import xengine as xe
from smt import R
from checks import paths as P
from checks.gadget_common import load_rowsem

PATTERNS_Q = ["0123", "0000", "0011", "0101", "0012"]
PATTERNS_T = ["0123", "0000", "0001", "0010", "0100", "0111", "0011", "0101", "0110",
              "0012", "0102", "0120", "0112", "0121", "0122"]


def doc_gate(v, w):
    a, b, c, d = w
    return (v["q_m"] * a * b + v["q_l"] * a + v["q_r"] * b + v["q_o"] * c + v["q_f"] * d
            + v["q_c"] + v["pi"])


def rows_of(layout):
    return range(layout.init_rows, len(layout.gates))


def row_polys(rowsem, layout, i, wire_of):
    sel, w = layout.gates[i]
    ctx = rowsem.ctx
    m = {xe.SEL[k]: sel[k] for k in range(11)}
    n = len(layout.gates)
    nxt = layout.gates[i + 1][1] if i + 1 < n else w
    m.update({"a": wire_of(w[0]), "b": wire_of(w[1]), "c": wire_of(w[2]), "d": wire_of(w[3]),
              "a_w": wire_of(nxt[0]), "b_w": wire_of(nxt[1]), "d_w": wire_of(nxt[3])})
    out = []
    for fam, comps in rowsem.comp.items():
        cs = xe.subst(ctx, comps, m)
        for j, c in enumerate(cs):
            if fam == "arith" and i in layout.pis:
                c = c + layout.pis[i]
            if c.op == "c" and c.args[0] == 0:
                continue
            out.append((f"{fam}{j}", c))
    return out


def run(run):
    rowsem = load_rowsem(run)
    quick = run.tier == "quick"
    pats = PATTERNS_Q if quick else PATTERNS_T
    comps = []
    for name in ("append_gate", "append_evaluated_output", "gate_add", "gate_mul"):
        for pat in pats:
            for pi in ("nopi", "pi"):
                comps.append([name, pat, pi])
    for pat in ("01", "00"):
        comps.append(["assert_equal", pat])
    comps += [["assert_equal_constant", "0", "nopi"], ["assert_equal_constant", "0", "pi"],
              ["append_constant"], ["append_public"], ["component_boolean"],
              ["component_select", "01"], ["component_select", "00"],
              ["component_select_one", "01"], ["component_select_one", "00"],
              ["component_select_zero", "01"], ["component_select_zero", "00"]]
    run.add_functions(["Composer::append_gate", "Composer::append_evaluated_output", "Composer::gate_add",
                       "Composer::gate_mul", "Composer::assert_equal", "Composer::assert_equal_constant",
                       "Composer::append_constant", "Composer::append_public", "Composer::component_boolean",
                       "Composer::component_select", "Composer::component_select_one",
                       "Composer::component_select_zero", "Constraint::arithmetic", "Constraint::from_external",
                       "Composer::append_custom_gate_internal"])
    npaths = 0
    for args in comps:
        sb = fw.run_driver(fw.SYM_BIN, ["component"] + args, run.seed)
        rb = fw.run_driver(fw.REAL_BIN, ["component"] + args, run.seed)
        ctx, nodes, paths = P.load(sb)
        P.validate_paths(run, paths, rb)
        if not sb["meta"].get("complete", True):
            run.inconclusive.append(f"{args}: path budget exceeded")
        # row semantics must live in the same Ctx: re-import per bundle
        rs = reimport_rowsem(run, rowsem, ctx)
        for pi_, p in enumerate(paths):
            npaths += 1
            tag = "/".join(args) + f"/p{pi_}"
            if p.panic is not None:
                check_panic_path(run, tag, ctx, p)
                continue
            check_path(run, rs, ctx, args, p, tag)
    run.extra["paths_explored"] = npaths
    run.bounds.append("wire-sharing patterns: " + ",".join(pats) + " (thorough: all 15 set partitions); "
                      "selectors, witnesses, constants and public inputs: ALL field values; "
                      "all symbolic branches of append_evaluated_output (q_O = 1, -1, invertible, 0)")


_rs_cache = {}


def reimport_rowsem(run, rowsem, ctx):
    """copy the row-semantics components into another Ctx (pure re-creation
    of the same DAG; the split obligations were already queued once)"""
    class RS:
        pass
    rs = RS()
    rs.ctx = ctx
    rs.comp = {}
    for fam, comps in rowsem.comp.items():
        memo = {}
        out = []
        for c in comps:
            for e in smt.topo([c]):
                if e.op == "v":
                    memo[e.id] = ctx.var(e.args[0])
                elif e.op == "c":
                    memo[e.id] = ctx.const(e.args[0])
                else:
                    memo[e.id] = ctx.mk(e.op, tuple(memo[a.id] for a in e.args))
            out.append(memo[c.id])
        rs.comp[fam] = out
    return rs


def check_panic_path(run, tag, ctx, p):
    """a path that panics is a violation iff its path condition is feasible"""
    roots = []
    conds = p.cond_smt(ctx, roots)
    lines = smt.smt_defs(roots)
    run.obligation(f"{tag}/panic-infeasible", lines, conds, "unsat", "path-feasibility",
                   meta={"panic": p.panic})


def check_path(run, rs, ctx, args, p, tag):
    name = args[0]
    L = p.layout
    sub = p.substitution(ctx)
    rows = list(rows_of(L))
    inputs = L.inputs
    # free-wire view: every witness index is a variable w<i>; inputs keep w<i> too
    free = lambda i: ctx.var(xe.wname(i))
    honest = lambda i: xe.subst(ctx, [L.witnesses[i]], sub)[0]
    # ---- honest: witness values computed by the real code satisfy the rows
    roots = []
    conds = [c for c in p.cond_smt(ctx, roots)]
    computes = (L.returned.get("out") is not None) or name in ("append_constant", "append_public")
    for i in (rows if computes else []):
        for cname, c in row_polys(rs, L, i, honest):
            c = xe.subst(ctx, [c], sub)[0]
            # the path condition (e.g. q_O != 0, != 1, != -1) is an assumption of the identity
            proots = []
            pconds = []
            for a_, b_, eq_, forced_ in p.conds:
                d_ = xe.subst(ctx, [a_ - b_], sub)[0]
                if smt.has_inv([d_]):
                    continue
                if d_.op == "c":
                    continue
                proots.append(d_)
                atom = f"(= (mod {smt.ref(d_)} {R}) 0)"
                pconds.append(atom if eq_ else f"(not {atom})")
            o = run.identity(f"{tag}/honest/r{i}/{cname}", c, ctx.const(0), assumptions=pconds,
                             extra_roots=proots, replay=replay_honest(run, args, L))
            # path conditions are only needed when an inverse occurs; fractions
            # were cleared by cross-multiplication, so no assumption is required
    # ---- emit: emitted polynomial == documented relation
    v = {k: ctx.var(k) for k in ("q_m", "q_l", "q_r", "q_o", "q_f", "q_c", "pi", "k")}
    zero, one = ctx.const(0), ctx.const(1)
    w_in = {n: free(i) for n, i in inputs.items()}
    ret = L.returned
    if name in ("append_gate", "append_evaluated_output", "gate_add", "gate_mul"):
        pat, with_pi = args[1], args[2] == "pi"
        i = rows[0]
        wires = [w_in["x" + ch] for ch in pat]
        vv = dict(v)
        if not with_pi:
            vv["pi"] = zero
        if name in ("gate_add", "gate_mul"):
            vv["q_o"] = ctx.const(-1)
        out_idx = ret.get("out")
        if out_idx is not None:
            wires[2] = free(out_idx)
        doc = doc_gate(vv, wires)
        pol = [c for n_, c in row_polys(rs, L, i, free) if n_.startswith("arith")]
        assert len(rows) == 1
        emitted = pol[0] if pol else zero
        emitted, doc = xe.subst(ctx, [emitted, doc], sub)
        run.identity(f"{tag}/emit", emitted, doc, replay=replay_emit(run, args, L, i, doc, ctx, sub))
        others = [c for n_, c in row_polys(rs, L, i, free) if not n_.startswith("arith")]
        for k_, c in enumerate(others):
            run.identity(f"{tag}/no-other-family/{k_}", c, zero)
        # uniqueness of the returned witness (q_O != 0 on this path)
        if out_idx is not None:
            o1, o2 = ctx.var("o1"), ctx.var("o2")
            r1 = xe.subst(ctx, [emitted], {xe.wname(out_idx): o1})[0]
            r2 = xe.subst(ctx, [emitted], {xe.wname(out_idx): o2})[0]
            qo = xe.subst(ctx, [vv["q_o"]], sub)[0]
            # hint (Type I): r1 - r2 == q_o * (o1 - o2)
            run.identity(f"{tag}/unique/hint", r1 - r2, qo * (o1 - o2))
            # integral-domain step: q_o*(o1-o2)=0 and q_o!=0 => o1=o2 ; with the
            # hint, two satisfying outputs coincide.  q_o != 0 must follow from
            # the path condition:
            roots = [qo]
            cs = p.cond_smt(ctx, roots)
            lines = smt.smt_defs(roots)
            run.obligation(f"{tag}/unique/qo-nonzero", lines,
                           cs + [f"(= (mod {smt.ref(qo)} {R}) 0)"], "unsat", "path-implies")
        else:
            # q_O == 0 path: no witness may be returned only if q_o is zero on the path
            if name == "append_evaluated_output":
                qo = v["q_o"]
                roots = [qo]
                cs = p.cond_smt(ctx, roots)
                run.obligation(f"{tag}/none-only-if-qo-zero", smt.smt_defs(roots),
                               cs + [f"(not (= (mod {smt.ref(qo)} {R}) 0))"], "unsat", "path-implies")
        return
    # ---- fixed-selector components: documented relation via level-2 queries
    spec = SPECS[name](ctx, args, w_in, ret, free, v)
    rel = spec["rel"]
    q = xe.Query()
    encode_sym_rows(q, rs, L, rows, free, ctx)
    if spec.get("assume"):
        q.add(f_smt(q, spec["assume"]))
    q.add(f"(not {f_smt(q, rel)})")
    run.query(f"{tag}/sound", q, "unsat", "component-soundness",
              replay=replay_sound(run, args, L, rel, ctx))
    if ret.get("out") is None:
        # converse for pure assertions: relation => every emitted row holds
        qc = xe.Query()
        qc.add(f"(= {qc.var(xe.wname(0))} 0)")
        qc.add(f"(= {qc.var(xe.wname(1))} 1)")
        qc.add(f_smt(qc, rel))
        rows_f = [qc.zero(c) for i in rows for _, c in row_polys(rs, L, i, free)]
        qc.add("(not (and true " + " ".join(rows_f) + "))")
        run.query(f"{tag}/converse", qc, "unsat", "component-converse",
                  replay=replay_honest(run, args, L))
    if ret.get("out") is not None:
        # uniqueness: second copy of every witness allocated by the component
        q2 = xe.Query()
        encode_sym_rows(q2, rs, L, rows, free, ctx)
        inner = sorted({w for i in rows for w in L.gates[i][1]} - set(inputs.values()) - {0, 1})
        ren = {xe.wname(i): ctx.var(xe.wname(i) + "_2") for i in inner}
        free2 = lambda i: ren.get(xe.wname(i), ctx.var(xe.wname(i)))
        encode_sym_rows(q2, rs, L, rows, free2, ctx)
        if spec.get("assume"):
            q2.add(f_smt(q2, spec["assume"]))
        o = ret["out"]
        q2.add(f"(not (= {q2.var(xe.wname(o))} {q2.var(xe.wname(o) + '_2')}))")
        run.query(f"{tag}/unique", q2, "unsat", "component-uniqueness",
                  replay=replay_unique(run, args, L, o))


def encode_sym_rows(q, rs, L, rows, wire_of, ctx):
    # pin ZERO / ONE as the initialized() rows do (rows 0,1 are concrete)
    q.add(f"(= {q.var(xe.wname(0))} 0)")
    q.add(f"(= {q.var(xe.wname(1))} 1)")
    for i in rows:
        for cname, c in row_polys(rs, L, i, wire_of):
            q.add(q.zero(c, positive=True))


# ---- documented relations as small formula ASTs:
#   ("zero", Expr) | ("and", f..) | ("or", f..) | ("imp", f, g) | ("not", f)
def Z(e):
    return ("zero", e)


def f_smt(q, f):
    t = f[0]
    if t == "zero":
        return q.zero(f[1])
    if t == "not":
        return f"(not {f_smt(q, f[1])})"
    if t == "imp":
        return f"(=> {f_smt(q, f[1])} {f_smt(q, f[2])})"
    return "(" + t + " " + " ".join(f_smt(q, g) for g in f[1:]) + ")"


def f_eval(f, env):
    t = f[0]
    if t == "zero":
        return smt.evaluate([f[1]], env)[f[1].id] == 0
    if t == "not":
        return not f_eval(f[1], env)
    if t == "imp":
        return (not f_eval(f[1], env)) or f_eval(f[2], env)
    vals = [f_eval(g, env) for g in f[1:]]
    return all(vals) if t == "and" else any(vals)


def _bit01(bit):
    return ("or", Z(bit), Z(bit - 1))


def _spec_assert_equal(ctx, args, w, ret, free, v):
    a = w["x0"]
    b = w.get("x1", a)
    return {"rel": Z(a - b)}


def _spec_assert_equal_constant(ctx, args, w, ret, free, v):
    pi = v["pi"] if args[2] == "pi" else ctx.const(0)
    return {"rel": Z(w["x0"] - v["k"] - pi)}


def _spec_append_constant(ctx, args, w, ret, free, v):
    return {"rel": Z(free(ret["out"]) - v["k"])}


def _spec_append_public(ctx, args, w, ret, free, v):
    return {"rel": Z(free(ret["out"]) - v["pi"])}


def _spec_boolean(ctx, args, w, ret, free, v):
    return {"rel": _bit01(w["x0"])}


def _spec_select(ctx, args, w, ret, free, v):
    bit, a = w["bit"], w["x0"]
    b = w.get("x1", a)
    o = free(ret["out"])
    # documented: bit == 1 => a ; bit == 0 => b
    return {"assume": _bit01(bit), "rel": ("and", ("imp", Z(bit - 1), Z(o - a)), ("imp", Z(bit), Z(o - b)))}


def _spec_select_one(ctx, args, w, ret, free, v):
    bit = w["bit"]
    a = w.get("x0", bit)
    o = free(ret["out"])
    return {"assume": _bit01(bit), "rel": ("and", ("imp", Z(bit - 1), Z(o - a)), ("imp", Z(bit), Z(o - 1)))}


def _spec_select_zero(ctx, args, w, ret, free, v):
    bit = w["bit"]
    a = w.get("x0", bit)
    o = free(ret["out"])
    return {"assume": _bit01(bit), "rel": ("and", ("imp", Z(bit - 1), Z(o - a)), ("imp", Z(bit), Z(o)))}


SPECS = {
    "assert_equal": _spec_assert_equal,
    "assert_equal_constant": _spec_assert_equal_constant,
    "append_constant": _spec_append_constant,
    "append_public": _spec_append_public,
    "component_boolean": _spec_boolean,
    "component_select": _spec_select,
    "component_select_one": _spec_select_one,
    "component_select_zero": _spec_select_zero,
}


# ---- replay -----------------------------------------------------------------
NAMED = ("q_m", "q_l", "q_r", "q_o", "q_f", "q_c", "pi", "k", "bit", "x0", "x1", "x2", "x3")


def _env_from_model(model, L, copy2=False):
    """named inputs + witness overrides from a solver model"""
    env = {}
    for n in NAMED:
        val = model.get(smt.vname(n))
        if val is not None:
            env[n] = "%064x" % (val % R)
    # inputs are witnesses too: w<i> of an input overrides the named value
    for n, i in L.inputs.items():
        val = model.get(smt.vname(xe.wname(i)))
        if val is not None:
            env[n] = "%064x" % (val % R)
    for i in range(len(L.witnesses)):
        key = smt.vname(xe.wname(i) + ("_2" if copy2 else ""))
        val = model.get(key)
        if val is None and copy2:
            val = model.get(smt.vname(xe.wname(i)))
        if val is not None and i not in (0, 1):
            env[f"w{i}"] = "%064x" % (val % R)
    return env


def replay_sound(run, args, L, rel, ctx):
    """model: rows hold, documented relation violated.  Reproduced iff the real
    prover/verifier accept the assignment and the relation is false at it."""
    def rp(model):
        from checks.common import real_at
        env = _env_from_model(model, L)
        rb = real_at(["prove_component"] + args, env, run.seed)
        o = rb["outputs"]
        ienv = {}
        for e in smt.topo(_exprs(rel)):
            if e.op == "v":
                ienv[e.args[0]] = model.get(smt.vname(e.args[0]), 0) % R
        bad = not f_eval(rel, ienv)
        return bool(o["verified"]) and bad, {"env": env, "verified": o["verified"], "error": o["error"],
                                             "relation_violated": bad}
    return rp


def replay_honest(run, args, L):
    """model: inputs at which the witness computed by the real code does not
    satisfy the emitted rows.  Reproduced iff the real prover fails (or the
    verifier rejects) on the honest run at these inputs."""
    def rp(model):
        from checks.common import real_at
        env = {k: v for k, v in _env_from_model(model, L).items() if not k.startswith("w")}
        rb = real_at(["prove_component"] + args, env, run.seed)
        o = rb["outputs"]
        return not o["verified"], {"env": env, "proved": o["proved"], "verified": o["verified"],
                                   "error": o["error"]}
    return rp


def replay_unique(run, args, L, out_idx):
    def rp(model):
        from checks.common import real_at
        e1 = _env_from_model(model, L)
        e2 = _env_from_model(model, L, copy2=True)
        o1 = real_at(["prove_component"] + args, e1, run.seed)["outputs"]
        o2 = real_at(["prove_component"] + args, e2, run.seed)["outputs"]
        differ = e1.get(f"w{out_idx}") != e2.get(f"w{out_idx}")
        return bool(o1["verified"] and o2["verified"] and differ), {"env1": e1, "env2": e2,
                                                                    "v1": o1["verified"], "v2": o2["verified"]}
    return rp


def replay_emit(run, args, L, row, doc, ctx, sub=None):
    """model: values at which emitted != documented polynomial.  Reproduced iff
    the gate the real composer emits at these selector values, evaluated by
    the documented arithmetic-gate relation, differs from the documented
    component relation."""
    def rp(model):
        from checks.common import real_at
        from spec import rows as srows
        env = {k: v for k, v in _env_from_model(model, L).items() if not k.startswith("w")}
        # variables fixed by the path condition (e.g. q_o == 0 on the branch under test)
        for k, c in (sub or {}).items():
            if getattr(c, "op", None) == "c" and not k.startswith("w"):
                env[k] = "%064x" % (c.args[0] % R)
        rb = real_at(["component"] + args, env, run.seed)
        lay = rb["outputs"]["paths"][0]["layout"]
        sel = [int(x, 16) for x in lay["gates"][row][0]]
        wi = lay["gates"][row][1]
        wv = {i: model.get(smt.vname(xe.wname(i)), 0) % R for i in wi}
        wv[0], wv[1] = 0, 1
        vals = dict(zip(xe.SEL, sel))
        vals.update({"a": wv[wi[0]], "b": wv[wi[1]], "c": wv[wi[2]], "d": wv[wi[3]]})
        pis = {int(r): int(x, 16) for r, x in lay["pis"]}
        e = (srows.arith(vals) + pis.get(row, 0)) % R
        ienv = {}
        for x in smt.topo([doc]):
            if x.op == "v":
                ienv[x.args[0]] = model.get(smt.vname(x.args[0]), 0) % R
        d = smt.evaluate([doc], ienv)[doc.id]
        return e != d, {"env": env, "emitted_value": hex(e), "documented_value": hex(d), "row": row}
    return rp


def _exprs(f):
    if f[0] == "zero":
        return [f[1]]
    out = []
    for g in f[1:]:
        out += _exprs(g)
    return out
