"""C12 -- curve-group components compute the JubJub group law (partial).

Decided by the solver on the rows emitted by the REAL composer executed on
symbolic coordinates:
  add     wiring + relation: the two rows of `add_point_gates` == the three
          twisted-Edwards addition equations on (x1,y1,x2,y2,x3,y3,x1*y2);
          the witness computed by the real code (dusk-jubjub extended addition,
          normalised) satisfies them and equals the affine group-law formula;
          outputs are unique when the denominators are non-zero
  neg / select_identity / select_point: rows => documented result, unique;
          select_identity unsatisfiable for a non-boolean bit
  sub     = neg then add (structural composition of the proven pieces)
  mul     `component_mul_point` layout == decomposition::<252> followed by 252
          identical rounds [double, select_identity, add] wired MSB-first from the
          identity (structural check on the extracted layout); each piece is
          one of the lemmas above
Cited, not encoded: completeness of the Edwards law on curve points
(denominators non-zero), associativity of the group law, subgroup closure.
"""
import framework as fw
import smt
import xengine as xe
from smt import R, EDWARDS_D
from checks import paths as P
from checks.gadget_common import load_rowsem
from checks.c08 import (reimport_rowsem, row_polys, rows_of, encode_sym_rows, f_smt, Z, replay_sound,
                        replay_honest, replay_unique)


def load_component(run, args):
    sb = fw.run_driver(fw.SYM_BIN, ["component"] + args, run.seed)
    rb = fw.run_driver(fw.REAL_BIN, ["component"] + args, run.seed)
    ctx, nodes, paths = P.load(sb)
    P.validate_paths(run, paths, rb)
    return ctx, nodes, paths


def add_checks(run, rowsem, pat):
    args = ["add_point_gates", pat]
    ctx, nodes, paths = load_component(run, args)
    rs = reimport_rowsem(run, rowsem, ctx)
    d = ctx.const(EDWARDS_D)
    for k, p in enumerate(paths):
        tag = f"add/{pat}/p{k}"
        if p.panic is not None:
            # a path of add_point_gates that panics must be infeasible; a model is replayed on the
            # real composer (same machinery as C07)
            from checks.c07 import feas_obligation, panic_replay
            feas_obligation(run, f"{tag}/panic-infeasible", ctx, p, {"panic": p.panic},
                            replay=panic_replay(run, args, p))
            continue
        L = p.layout
        rows = list(rows_of(L))
        inp = L.inputs
        free = lambda i: ctx.var(xe.wname(i))
        x1, y1 = free(inp["px"]), free(inp["py"])
        x2, y2 = (free(inp["qx"]), free(inp["qy"])) if pat == "01" else (x1, y1)
        ox, oy = L.returned["out"]
        x3, y3 = free(ox), free(oy)
        # the helper witness is the d wire of the second row
        h = free(L.gates[rows[1]][1][3])
        comps = [c for i in rows for _, c in row_polys(rs, L, i, free)]
        doc = [x1 * y2 - h,
               h + y1 * x2 - (x3 + x3 * d * h * (y1 * x2)),
               y1 * y2 + x1 * x2 - (y3 - y3 * d * h * (y1 * x2))]
        if len(comps) != 3:
            run.violations.append((f"{tag}/components", _w(run, tag, f"{len(comps)} non-trivial row components")))
            continue
        if k == 0:
            for j in range(3):
                run.identity(f"{tag}/emit/{j}", comps[j], doc[j])
        # honest witness of this path satisfies the rows
        sub = p.substitution(ctx)
        hon = lambda i: xe.subst(ctx, [L.witnesses[i]], sub)[0]
        for i in (rows if k == 0 else []):
            # (on the pole path -- sum with Z = 0, impossible for curve points -- the identity is
            #  returned and the rows are not satisfiable: not part of the claim)
            for cname, c in row_polys(rs, L, i, hon):
                run.identity(f"{tag}/honest/r{i}/{cname}", c, ctx.const(0), replay=replay_honest(run, args, L))
        if k == 0:
            # generic path (sum has non-zero Z): the computed point is the affine group sum
            X1, Y1 = ctx.var("px"), ctx.var("py")
            X2, Y2 = (ctx.var("qx"), ctx.var("qy")) if pat == "01" else (X1, Y1)
            t = d * X1 * X2 * Y1 * Y2
            run.identity(f"{tag}/group-law/x", hon(ox), (X1 * Y2 + Y1 * X2) * (1 + t).inv())
            run.identity(f"{tag}/group-law/y", hon(oy), (Y1 * Y2 + X1 * X2) * (1 - t).inv())
            # uniqueness: with h = x1*y2 (first equation) the other two are linear in x3, y3
            h0 = x1 * y2
            D1 = 1 + d * h0 * (y1 * x2)
            D2 = 1 - d * h0 * (y1 * x2)
            x3b, y3b = ctx.var("x3_2"), ctx.var("y3_2")
            e2 = lambda xx: h0 + y1 * x2 - (xx + xx * d * h0 * (y1 * x2))
            e3 = lambda yy: y1 * y2 + x1 * x2 - (yy - yy * d * h0 * (y1 * x2))
            run.identity(f"{tag}/unique/hint-x", e2(x3) - e2(x3b), -(D1 * (x3 - x3b)))
            run.identity(f"{tag}/unique/hint-y", e3(y3) - e3(y3b), -(D2 * (y3 - y3b)))
            q = xe.Query()
            # both outputs satisfy the (linear-in-output) equations => D*(out - out') = 0
            q.add(q.zero(D1 * (x3 - x3b)))
            q.add(q.zero(D2 * (y3 - y3b)))
            q.add(f"(not {q.zero(D1)})")
            q.add(f"(not {q.zero(D2)})")
            q.add(f"(not (and {q.zero(x3 - x3b)} {q.zero(y3 - y3b)}))")
            run.query(f"{tag}/unique", q, "unsat", "component-uniqueness", get_model=False)


def fixed_checks(run, rowsem):
    """neg, select_identity, select_point through level-2 queries (concrete selectors)"""
    specs = []
    # neg
    ctx, nodes, paths = load_component(run, ["component_neg_point"])
    rs = reimport_rowsem(run, rowsem, ctx)
    L = paths[0].layout
    free = lambda i: ctx.var(xe.wname(i))
    px, py = free(L.inputs["px"]), free(L.inputs["py"])
    ox, oy = L.returned["out"]
    rel = ("and", Z(free(ox) + px), Z(free(oy) - py))
    generic(run, rs, ctx, ["component_neg_point"], paths[0], rel, None, "neg", [ox, oy])
    # select_identity
    ctx, nodes, paths = load_component(run, ["component_select_identity"])
    rs = reimport_rowsem(run, rowsem, ctx)
    L = paths[0].layout
    free = lambda i: ctx.var(xe.wname(i))
    bit, px, py = free(L.inputs["bit"]), free(L.inputs["px"]), free(L.inputs["py"])
    ox, oy = L.returned["out"]
    rel = ("and", ("or", Z(bit), Z(bit - 1)),
           ("imp", Z(bit - 1), ("and", Z(free(ox) - px), Z(free(oy) - py))),
           ("imp", Z(bit), ("and", Z(free(ox)), Z(free(oy) - 1))))
    generic(run, rs, ctx, ["component_select_identity"], paths[0], rel, None, "select_identity", [ox, oy])
    # select_point (bit assumed boolean, as documented)
    ctx, nodes, paths = load_component(run, ["component_select_point"])
    rs = reimport_rowsem(run, rowsem, ctx)
    L = paths[0].layout
    free = lambda i: ctx.var(xe.wname(i))
    bit = free(L.inputs["bit"])
    px, py, qx, qy = (free(L.inputs[n]) for n in ("px", "py", "qx", "qy"))
    ox, oy = L.returned["out"]
    rel = ("and", ("imp", Z(bit - 1), ("and", Z(free(ox) - px), Z(free(oy) - py))),
           ("imp", Z(bit), ("and", Z(free(ox) - qx), Z(free(oy) - qy))))
    generic(run, rs, ctx, ["component_select_point"], paths[0], rel, ("or", Z(bit), Z(bit - 1)),
            "select_point", [ox, oy])


def generic(run, rs, ctx, args, p, rel, assume, tag, outs):
    L = p.layout
    rows = list(rows_of(L))
    free = lambda i: ctx.var(xe.wname(i))
    q = xe.Query()
    encode_sym_rows(q, rs, L, rows, free, ctx)
    if assume:
        q.add(f_smt(q, assume))
    q.add(f"(not {f_smt(q, rel)})")
    run.query(f"{tag}/sound", q, "unsat", "component-soundness", replay=replay_sound(run, args, L, rel, ctx))
    sub = p.substitution(ctx)
    hon = lambda i: xe.subst(ctx, [L.witnesses[i]], sub)[0]
    given = set(L.inputs.values()) | {0, 1}
    for i in rows:
        if set(L.gates[i][1]) <= given:
            continue   # a pure assertion on the inputs (e.g. booleanity): not a computed witness
        for cname, c in row_polys(rs, L, i, hon):
            run.identity(f"{tag}/honest/r{i}/{cname}", c, ctx.const(0), replay=replay_honest(run, args, L))
    q2 = xe.Query()
    encode_sym_rows(q2, rs, L, rows, free, ctx)
    inner = sorted({w for i in rows for w in L.gates[i][1]} - set(L.inputs.values()) - {0, 1})
    ren = {xe.wname(i): ctx.var(xe.wname(i) + "_2") for i in inner}
    free2 = lambda i: ren.get(xe.wname(i), ctx.var(xe.wname(i)))
    encode_sym_rows(q2, rs, L, rows, free2, ctx)
    if assume:
        q2.add(f_smt(q2, assume))
    diff = " ".join(f"(= {q2.var(xe.wname(o))} {q2.var(xe.wname(o) + '_2')})" for o in outs if o in inner)
    q2.add(f"(not (and {diff}))")
    run.query(f"{tag}/unique", q2, "unsat", "component-uniqueness", get_model=False)


def sub_check(run, rowsem):
    """component_sub_point must emit exactly: the negation row of b (x -> -x) followed by the two
    rows of add_point_gates(a, -b); proven row by row against the documented polynomials."""
    ctx, nodes, paths = load_component(run, ["component_sub_point", "01"])
    rs = reimport_rowsem(run, rowsem, ctx)
    d = ctx.const(EDWARDS_D)
    L = paths[0].layout
    rows = list(rows_of(L))
    free = lambda i: ctx.var(xe.wname(i))
    if len(rows) != 3:
        run.violations.append(("sub/rows", _w(run, "sub", f"{len(rows)} rows instead of neg + 2 addition rows")))
        return
    ax, ay, bx, by = (free(L.inputs[n]) for n in ("px", "py", "qx", "qy"))
    g = [L.gates[i][1] for i in rows]
    nx = free(g[0][2])
    x3, y3, h = free(g[2][0]), free(g[2][1]), free(g[2][3])
    doc = [bx + nx,                                   # -b.x - nx = 0 up to sign
           ax * by - h,
           h + ay * nx - (x3 + x3 * d * h * (ay * nx)),
           ay * by + ax * nx - (y3 - y3 * d * h * (ay * nx))]
    comps = [c for i in rows for _, c in row_polys(rs, L, i, free)]
    if len(comps) != 4:
        run.violations.append(("sub/components", _w(run, "sub", f"{len(comps)} components")))
        return
    from checks.c13 import _pm
    run.obligation("sub/emit/0", *(_pm(ctx, comps[0], doc[0])), expect="unsat", kind="identity")
    for j in (1, 2, 3):
        run.identity(f"sub/emit/{j}", comps[j], doc[j])
    if tuple(L.returned["out"]) != (g[2][0], g[2][1]):
        run.violations.append(("sub/returned", _w(run, "sub", "returned point is not the addition output")))


def structure_checks(run):
    """sub = neg;add and mul_point = decomposition;252x[dbl, select, add]: structural
    comparison of the extracted layouts (concrete), auxiliary to the lemmas above"""
    b = fw.run_driver(fw.REAL_BIN, ["extract", "mul_point"], run.seed)
    L = xe.Layout(b["outputs"]["layout"])
    rows = L.gates[L.init_rows:]
    VAR = xe.SEL.index("q_var")
    # decomposition::<252>: 2*252 + 1 rows
    dec = 2 * 252 + 1
    body = rows[dec:]
    problems = []
    if len(body) != 252 * 6:
        problems.append(f"expected 252 rounds of 6 rows after the decomposition, got {len(body)} rows")
    else:
        bits = b["outputs"]["layout"]["returned"].get("bits")
        prev = (0, 1)   # IDENTITY = (ZERO, ONE)
        px, py = L.inputs["px"], L.inputs["py"]
        for r in range(252):
            g = body[6 * r: 6 * r + 6]
            dbl, dbl2, selx, sely, add, add2 = g
            ok = (dbl[0][VAR] % R == 1 and dbl[1][0] == prev[0] and dbl[1][1] == prev[1]
                  and dbl[1][2] == prev[0] and dbl[1][3] == prev[1] and not any(dbl2[0]))
            d_out = (dbl2[1][0], dbl2[1][1])
            ok = ok and selx[1][1] == px and sely[1][1] == py and selx[1][0] == sely[1][0]
            sel_out = (selx[1][2], sely[1][2])
            ok = ok and add[0][VAR] % R == 1 and (add[1][0], add[1][1]) == d_out and (add[1][2], add[1][3]) == sel_out
            ok = ok and not any(add2[0])
            if bits is not None:
                ok = ok and selx[1][0] == bits[251 - r]
            if not ok:
                problems.append(f"round {r} deviates from [double, select_identity, add]")
                break
            prev = (add2[1][0], add2[1][1])
        out = b["outputs"]["layout"]["returned"].get("out")
        if out and tuple(out) != tuple(prev):
            problems.append("returned point is not the last accumulator")
    run.extra["mul_point_rounds_matched"] = 252 if not problems else 0
    if problems:
        run.violations.append(("mul_point/structure", _w(run, "mul_point", "; ".join(problems))))


def run(run):
    rowsem = load_rowsem(run)
    add_checks(run, rowsem, "01")
    add_checks(run, rowsem, "00")
    fixed_checks(run, rowsem)
    sub_check(run, rowsem)
    structure_checks(run)
    run.add_functions(["Composer::add_point_gates", "Composer::component_add_point", "Composer::component_sub_point",
                       "Composer::component_neg_point", "Composer::component_select_identity",
                       "Composer::component_select_point", "Composer::component_mul_point",
                       "widget::ecc::curve_addition::ProverKey::compute_quotient_i",
                       "dusk_jubjub extended addition + normalisation (dependency, executed symbolically)"])
    run.bounds.append("ALL coordinate values (on or off the curve) for add/neg/select; uniqueness under non-zero "
                      "denominators; mul_point: structural match of all 252 rounds on the extracted layout")
    run.outside.append("completeness of the twisted-Edwards law on curve points (denominators non-zero), "
                       "associativity and subgroup closure are cited; hence 'returns exactly [s]P' for mul_point is "
                       "the composition of the proven per-round step with cited group theory")


def _w(run, tag, what):
    import json, os
    d = os.path.join(fw.OUT, "cex")
    os.makedirs(d, exist_ok=True)
    p = os.path.join(d, f"C12_{tag.replace('/', '_')}.json")
    json.dump({"property": "C12", "what": what}, open(p, "w"), indent=1)
    return p
