import json
import os
import tempfile

import framework as fw
import smt


def model_env(model, names):
    """solver model (v_<name> -> int) -> {name: hex} for the real driver"""
    env = {}
    for n in names:
        v = model.get(smt.vname(n), 0) % smt.R
        env[n] = "%064x" % v
    return env


def real_at(args, env, seed=0):
    os.makedirs(fw.OUT, exist_ok=True)
    fd, p = tempfile.mkstemp(prefix="env_", suffix=".json", dir=fw.OUT)
    with os.fdopen(fd, "w") as f:
        json.dump(env, f)
    try:
        return fw.run_driver(fw.REAL_BIN, args, seed, env_file=p)
    finally:
        os.unlink(p)


def replay_identity(args, out_name, spec_expr, names, seed=0):
    """Replay of a Type-I counterexample: evaluate the real build at the model
    and the spec in Python; reproduced iff they differ."""
    def rp(model):
        env = model_env(model, names)
        rb = real_at(args, env, seed)
        real = rb["outputs"]
        for k in out_name.split("/"):
            real = real[int(k)] if isinstance(real, list) else real[k]
        ienv = {k: int(v, 16) for k, v in env.items()}
        sv = smt.evaluate([spec_expr], ienv)[spec_expr.id]
        return int(real, 16) != sv, {"env": env, "real": real, "spec": "%064x" % sv,
                                     "driver": args, "output": out_name}
    return rp
