"""C11 -- truncation and bit decomposition return the canonical bits."""
import random

import framework as fw
import smt
import xengine as xe
from smt import R
from checks.gadget_common import (load_rowsem, extract, honest_guard, range_patterns,
                                  summary_lemmas, gadget_replay, mval)

QUICK_T = [0, 1, 2, 3, 7, 8, 63, 64, 65, 127, 128, 129, 200, 252, 253, 254]
QUICK_D = [1, 2, 3, 8, 32, 64, 127, 252, 253, 254]


def run(run):
    rowsem = load_rowsem(run)
    pats = range_patterns(run)
    rnd = random.Random(run.seed)
    if run.tier == "thorough":
        tw, dw = list(range(255)), list(range(1, 257))
    else:
        tw = sorted(set(QUICK_T + [rnd.randrange(4, 250) for _ in range(2)]))
        dw = sorted(set(QUICK_D + [rnd.randrange(4, 250) for _ in range(1)] + [255, 256]))
    run.add_functions(["Composer::component_truncate::<N>", "Composer::bind_truncation_split",
                       "Composer::assert_canonical_truncation", "Composer::range_check",
                       "Composer::component_decomposition::<N>", "Composer::component_boolean",
                       "Composer::gate_add", "Composer::gate_mul", "Composer::assert_equal"])
    used = set()
    for N in tw:
        layout, _ = extract(run, ["truncate", N])
        q = xe.Query()
        blocks = xe.encode_with_summaries(q, rowsem, layout, pats)
        used |= {b[2] for b in blocks}
        xi, oi = layout.inputs["x"], layout.returned["out"]
        x, o = q.var(xe.wname(xi)), q.var(xe.wname(oi))
        q.add(f"(not (= {o} (mod {x} {1 << N})))")

        def violated(model, N=N, xi=xi, oi=oi):
            xv, ov = mval(model, xi), mval(model, oi)
            return ov != xv % (1 << N), {"x": hex(xv), "out": hex(ov), "N": N}
        run.query(f"truncate/sound/N{N}", q, "unsat", "gadget-soundness",
                  replay=gadget_replay(run, ["truncate", N], layout, violated,
                                       complete=("blocks", rowsem, pats)),
                  meta={"N": N, "rows": len(layout.gates), "range_blocks": [(b[2], b[1] - b[0]) for b in blocks]})
        # satisfiable for every input: honest witness at boundary inputs (vacuity + completeness samples)
        for tag, xv in (("zero", 0), ("rm1", R - 1), ("pow", (1 << N) % R), ("powm1", ((1 << N) - 1) % R),
                        ("wrap", (R - 1) % (1 << N) if N else 0)):
            lh, _ = extract(run, ["truncate", N], env={"x": "%064x" % xv})
            honest_guard(run, f"truncate/honest/N{N}/{tag}", rowsem, lh)
    for N in dw:
        layout, _ = extract(run, ["decomposition", N])
        xi, bits = layout.inputs["x"], layout.returned["bits"]
        bounds, lemmas = xe.propagate_bounds(rowsem, layout)
        run.bound_lemmas(f"decomposition/N{N}", lemmas)
        q = xe.Query()
        xe.apply_bounds(q, bounds)
        xe.encode_layout(q, rowsem, layout)
        x = q.var(xe.wname(xi))
        # rows => every bit is boolean and x = sum bit_i 2^i as INTEGERS (no wrap).
        # Uniqueness of the binary expansion (a cited arithmetic fact, also
        # re-decided below for N <= 8) then gives x < 2^N and bit_i = bit i of x.
        bs = [q.var(xe.wname(b)) for b in bits]
        goal = [f"(or (= {b} 0) (= {b} 1))" for b in bs]
        goal.append(f"(= {x} (+ 0 " + " ".join(f"(* {1 << i} {b})" for i, b in enumerate(bs)) + "))")
        q.add("(not (and " + " ".join(goal) + "))")

        def violated(model, N=N, xi=xi, bits=bits):
            xv = mval(model, xi)
            bv = [mval(model, b) for b in bits]
            ok = all(bv[i] == (xv >> i) & 1 for i in range(N)) and (xv < (1 << N) or N > 254)
            return not ok, {"x": hex(xv), "N": N, "bits_value": hex(sum(b << i for i, b in enumerate(bv)))}
        run.query(f"decomposition/sound/N{N}", q, "unsat", "gadget-soundness",
                  replay=gadget_replay(run, ["decomposition", N], layout, violated),
                  meta={"N": N, "rows": len(layout.gates)})
        if N <= 8:
            q3 = xe.Query()
            xe.apply_bounds(q3, bounds)
            xe.encode_layout(q3, rowsem, layout)
            x3 = q3.var(xe.wname(xi))
            g3 = [f"(< {x3} {1 << N})"] + [f"(= {q3.var(xe.wname(b))} (mod (div {x3} {1 << i}) 2))"
                                            for i, b in enumerate(bits)]
            q3.add("(not (and " + " ".join(g3) + "))")
            run.query(f"decomposition/canonical-bits/N{N}", q3, "unsat", "gadget-soundness",
                      replay=gadget_replay(run, ["decomposition", N], layout, violated))
        for tag, xv in (("zero", 0), ("max", ((1 << N) - 1) % R if N <= 254 else R - 1)):
            lh, _ = extract(run, ["decomposition", N], env={"x": "%064x" % xv})
            honest_guard(run, f"decomposition/honest/N{N}/{tag}", rowsem, lh)
    summary_lemmas(run, rowsem, pats, used)
    run.bounds.append(f"truncate N in {tw}; decomposition N in {dw} (thorough: all); ALL field values of the "
                      "input and of every internal wire (high part, inverse, is_top, guard, accumulators, bits)")
    run.outside.append("'satisfiable for every input' is decided at the honest witness of boundary inputs "
                       "(0, r-1, 2^N, 2^N-1, (r-1) mod 2^N), not for all inputs")
