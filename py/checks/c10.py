"""C10 -- bitwise AND / XOR components return exactly the truncated result."""
import random

import framework as fw
import smt
import xengine as xe
from smt import R
from checks.gadget_common import (load_rowsem, extract, honest_guard, range_patterns,
                                  summary_lemmas, gadget_replay, mval)

QUICK = [0, 1, 2, 8, 16, 63, 64, 126, 127]
LOGIC = xe.SEL.index("q_logic")


def optable(op, A, B):
    """SMT term for the quad operation as a 16-entry table"""
    t = "0"
    for a in range(4):
        for b in range(4):
            v = (a & b) if op == "and" else (a ^ b)
            t = f"(ite (and (= {A} {a}) (= {B} {b})) {v} {t})"
    return t


def prodtable(A, B):
    t = "0"
    for a in range(4):
        for b in range(4):
            t = f"(ite (and (= {A} {a}) (= {B} {b})) {a * b} {t})"
    return t


def logic_row_lemma(run, rowsem, sel, op):
    """Row lemma, proven once per operation from the REAL logic widget terms:
    (i) the components only depend on the wire differences (Type I);
    (ii) for field elements A,B,D,w: all components vanish  <=>
         A,B,D in 0..3, w = A*B, D = A op B   (both directions)."""
    ctx = rowsem.ctx
    names = ["a", "b", "c", "d", "a_w", "b_w", "d_w"]
    v = {n: ctx.var(n) for n in names}
    comps = [c for n_, c in rowsem.row_components(sel, v) if n_.startswith("logic")]
    zero = ctx.const(0)
    red = {"a": zero, "b": zero, "d": zero, "a_w": v["a_w"] - 4 * v["a"], "b_w": v["b_w"] - 4 * v["b"],
           "d_w": v["d_w"] - 4 * v["d"], "c": v["c"]}
    reduced = xe.subst(ctx, comps, red)
    for j, (c, rc) in enumerate(zip(comps, reduced)):
        run.identity(f"lemma/logic-row/{op}/depends-on-differences/{j}", c, rc)
    A, B, D, w = ctx.var("A"), ctx.var("B"), ctx.var("D"), ctx.var("w")
    inst = xe.subst(ctx, comps, {"a": zero, "b": zero, "d": zero, "a_w": A, "b_w": B, "d_w": D, "c": w})

    def build():
        q = xe.Query()
        As, Bs, Ds, ws = q.var("A"), q.var("B"), q.var("D"), q.var("w")
        real = "(and " + " ".join(q.zero(c) for c in inst) + ")"
        summ = (f"(and (<= {As} 3) (<= {Bs} 3) (<= {Ds} 3) (= {ws} {prodtable(As, Bs)}) "
                f"(= {Ds} {optable(op, As, Bs)}))")
        return q, real, summ
    q, real, summ = build()
    q.add(real)
    q.add(f"(not {summ})")
    run.query(f"lemma/logic-row/{op}/real=>summary", q, "unsat", "lemma/row-summary", timeout=120, get_model=False)
    q, real, summ = build()
    q.add(summ)
    q.add(f"(not {real})")
    run.query(f"lemma/logic-row/{op}/summary=>real", q, "unsat", "lemma/row-summary", timeout=120, get_model=False)
    return len(comps)


# ---- univariate root finding over F_r (for the merged-component forgery)
def _pmod(a, f):
    a = a[:]
    while len(a) >= len(f):
        c = a[-1]
        if c:
            for i in range(len(f)):
                a[len(a) - len(f) + i] = (a[len(a) - len(f) + i] - c * f[i]) % R
        a.pop()
    while a and a[-1] == 0:
        a.pop()
    return a


def _pmul(a, b, f):
    if not a or not b:
        return []
    out = [0] * (len(a) + len(b) - 1)
    for i, x in enumerate(a):
        if x:
            for j, y in enumerate(b):
                out[i + j] = (out[i + j] + x * y) % R
    return _pmod(out, f)


def _ppow(base, e, f):
    res, b = [1], _pmod(base, f)
    while e:
        if e & 1:
            res = _pmul(res, b, f)
        b = _pmul(b, b, f)
        e >>= 1
    return res


def _pgcd(a, b):
    while b:
        inv = pow(b[-1], R - 2, R)
        b = [x * inv % R for x in b]
        a, b = b, _pmod(a, b)
    if a:
        inv = pow(a[-1], R - 2, R)
        a = [x * inv % R for x in a]
    return a


def poly_roots(coeffs):
    """roots in F_r of sum coeffs[i] x^i (low degree), by gcd with x^r - x and random splitting"""
    f = [c % R for c in coeffs]
    while f and f[-1] == 0:
        f.pop()
    if len(f) <= 1:
        return []
    inv = pow(f[-1], R - 2, R)
    f = [c * inv % R for c in f]
    xr = _ppow([0, 1], R, f)
    d = xr[:] + [0] * max(0, 2 - len(xr))
    d[1] = (d[1] - 1) % R
    while d and d[-1] == 0:
        d.pop()
    g = _pgcd(f, d) if d else f
    roots, stack, rnd = [], [g], random.Random(5)
    while stack:
        h = stack.pop()
        if len(h) <= 1:
            continue
        if len(h) == 2:
            roots.append((-h[0]) % R)
            continue
        for _ in range(40):
            sft = rnd.randrange(R)
            t = _ppow([sft, 1], (R - 1) // 2, h)
            t = t + [0] * max(0, 1 - len(t))
            t[0] = (t[0] - 1) % R
            while t and t[-1] == 0:
                t.pop()
            k = _pgcd(h, t) if t else h
            if 1 < len(k) < len(h):
                q_, rem = h[:], []
                # exact division h / k
                quo = [0] * (len(h) - len(k) + 1)
                hh = h[:]
                for i in range(len(quo) - 1, -1, -1):
                    quo[i] = hh[i + len(k) - 1]
                    for j in range(len(k)):
                        hh[i + j] = (hh[i + j] - quo[i] * k[j]) % R
                stack += [k, quo]
                break
    return roots


def merged_logic_forgery(run, rowsem, sel, op):
    """The logic widget splits into fewer than five independent components: two identities of a row
    are only enforced through their sum.  Search a row assignment (quads A, B honest, a WRONG output
    quad D, product wire w = a root of the merged polynomial) that satisfies every real component,
    plant it in a one-pair gadget, let the solver complete and confirm the assignment, and replay it
    through the real prover and verifier."""
    ctx = rowsem.ctx
    zero = ctx.const(0)
    A, B, D, w = ctx.var("A"), ctx.var("B"), ctx.var("D"), ctx.var("w")
    names = ["a", "b", "c", "d", "a_w", "b_w", "d_w"]
    v = {n: ctx.var(n) for n in names}
    comps = [c for n_, c in rowsem.row_components(sel, v) if n_.startswith("logic")]
    inst = xe.subst(ctx, comps, {"a": zero, "b": zero, "d": zero, "a_w": A, "b_w": B, "d_w": D, "c": w})
    found = None
    for a_ in range(4):
        for b_ in range(4):
            good = (a_ & b_) if op == "and" else (a_ ^ b_)
            for d_ in range(4):
                if d_ == good or found:
                    continue
                cs = xe.subst(ctx, inst, {"A": ctx.const(a_), "B": ctx.const(b_), "D": ctx.const(d_)})
                cand = None
                okc = True
                for c in cs:
                    ex = xe.expand(c, {}, cap=64)
                    if ex is None:
                        okc = False
                        break
                    co = {}
                    for mono, cf in ex.items():
                        deg = sum(k for _, k in mono)
                        co[deg] = (co.get(deg, 0) + cf) % R
                    if not any(co.get(k, 0) for k in co if k > 0):
                        if co.get(0, 0) % R:
                            okc = False
                            break
                        continue
                    rts = poly_roots([co.get(k, 0) for k in range(max(co) + 1)])
                    cand = set(rts) if cand is None else cand & set(rts)
                if okc and cand:
                    found = (a_, b_, d_, sorted(cand)[0])
    if not found:
        run.notes.append("the logic widget has fewer than five components but no merged-component forgery was found")
        return
    a_, b_, d_, w_ = found
    layout, _ = extract(run, ["logic", op, 1], env={"a": "%064x" % a_, "b": "%064x" % b_})
    lrows = [i for i in range(layout.init_rows, len(layout.gates)) if layout.gates[i][0][LOGIC] % R]
    if len(lrows) != 1:
        run.notes.append("merged-component forgery: one-pair gadget does not have exactly one logic row")
        return
    i = lrows[0]
    wr, nx = layout.gates[i][1], layout.gates[i + 1][1]
    forged = {wr[2]: w_, nx[3]: d_}
    q = xe.Query()
    xe.encode_layout(q, rowsem, layout)
    for k in range(len(layout.witnesses)):
        nm = smt.vname(xe.wname(k))
        if nm in q.vars:
            q.add(f"(= {nm} {forged.get(k, layout.witnesses[k])})")
    r = smt.check(q.lines(), q.asserts, "z3", 60, get_model=False)
    model = {smt.vname(xe.wname(k)): forged.get(k, x) for k, x in enumerate(layout.witnesses)}
    oi, ai, bi = layout.returned["out"], layout.inputs["a"], layout.inputs["b"]

    def violated(m):
        ov = m.get(smt.vname(xe.wname(oi)), 0) % R
        exp = (a_ & b_) if op == "and" else (a_ ^ b_)
        return ov != exp, {"a": a_, "b": b_, "out": ov, "expected": exp, "product_wire": hex(w_)}
    ok, det = (False, {"solver_on_forged_assignment": r.status})
    if r.status == "sat":
        ok, det = gadget_replay(run, ["logic", op, 1], layout, violated)(model)
    import json
    import os
    d = os.path.join(fw.OUT, "cex")
    os.makedirs(d, exist_ok=True)
    path = os.path.join(d, f"C10_merged_components_{op}.json")
    json.dump({"property": "C10", "what": "two identities of the logic row are enforced only through their sum",
               "row_assignment": {"A": a_, "B": b_, "D_wrong": d_, "w": hex(w_)}, "replay_detail": det,
               "replayed": ok}, open(path, "w"), indent=1)
    if ok:
        run.violations.append((f"logic/{op}/merged-components", path))
    else:
        run.notes.append(f"merged-component forgery for {op} did not verify end to end")


def run(run):
    rowsem = load_rowsem(run)
    pats = range_patterns(run)
    rnd = random.Random(run.seed)
    ps = list(range(128)) if run.tier == "thorough" else sorted(set(QUICK + [rnd.randrange(3, 126)]))
    run.add_functions(["Composer::append_logic_and::<P>", "Composer::append_logic_xor::<P>",
                       "Composer::append_logic_component", "Composer::bind_logic_accumulators",
                       "Composer::bind_truncated_input", "Composer::bind_truncation_split",
                       "Composer::assert_canonical_truncation", "Composer::range_check",
                       "Constraint::logic", "Constraint::logic_xor"])
    used = set()
    lemma_done = {}
    for op in ("and", "xor"):
        for P in ps:
            layout, _ = extract(run, ["logic", op, P])
            ai, bi, oi = layout.inputs["a"], layout.inputs["b"], layout.returned["out"]
            n = len(layout.gates)
            lrows = [i for i in range(layout.init_rows, n) if layout.gates[i][0][LOGIC] % R]
            if lrows:
                sel = layout.gates[lrows[0]][0]
                if any(layout.gates[i][0] != sel for i in lrows):
                    run.inconclusive.append(f"logic/{op}/P{P}: logic rows with differing selectors")
                    continue
                key = (op, tuple(sel))
                if key not in lemma_done:
                    lemma_done[key] = logic_row_lemma(run, rowsem, sel, op)
                    if lemma_done[key] < 5:
                        merged_logic_forgery(run, rowsem, sel, op)
            blocks = [b for b in pats.find_blocks(layout) if b[1] - b[0] >= 3 and b[2] <= 254]
            used |= {b[2] for b in blocks}
            skip = set(lrows)
            init = {}
            for (s, e, k, w) in blocks:
                skip |= set(range(s, e))
                lo, hi = init.get(xe.wname(w), (0, R - 1))
                init[xe.wname(w)] = (lo, min(hi, (1 << k) - 1))
            rows = [i for i in xe.default_rows(layout) if i not in skip]
            # bounds: range rows of the logic chain give acc_{i+1} <= 4 acc_i + 3
            prop_rows = sorted(set(rows) | set(lrows))
            bounds, lem = xe.propagate_bounds(rowsem, layout, rows=prop_rows, init=init)
            run.bound_lemmas(f"logic/{op}/P{P}", lem)
            def violated(model, P=P, op=op, ai=ai, bi=bi, oi=oi):
                av, bv, ov = mval(model, ai), mval(model, bi), mval(model, oi)
                m = (1 << (2 * P)) - 1
                exp = (av & m) & (bv & m) if op == "and" else (av & m) ^ (bv & m)
                return ov != exp, {"a": hex(av), "b": hex(bv), "out": hex(ov), "expected": hex(exp)}
            meta = {"pairs": P, "rows": n, "logic_rows": len(lrows),
                    "range_blocks": [(b[2], b[1] - b[0]) for b in blocks]}
            rp = gadget_replay(run, ["logic", op, P], layout, violated)

            # --- (1) the chain: rows => digit-wise relation as INTEGER equalities,
            # one small query per logic row: the row (as its proven summary) and the
            # lemma-justified bounds of its six accumulator wires suffice; dropping the
            # other rows weakens the premises (sound).
            last = None
            for i in lrows:
                sel, w = layout.gates[i]
                nx = layout.gates[i + 1][1]
                q = xe.Query()
                for x_ in set(w) | set(nx):
                    if xe.wname(x_) in bounds:
                        q.var(xe.wname(x_), *bounds[xe.wname(x_)])
                An, Bn, Dn = f"quadA{i}", f"quadB{i}", f"quadD{i}"
                A, B, D = q.var(An, 0, 3), q.var(Bn, 0, 3), q.var(Dn, 0, 3)
                wa, wb, wd = xe.wname(w[0]), xe.wname(w[1]), xe.wname(w[3])
                na, nb, nd = xe.wname(nx[0]), xe.wname(nx[1]), xe.wname(nx[3])
                for (cur, nxt, Q) in ((wa, na, An), (wb, nb, Bn), (wd, nd, Dn)):
                    q.add(q.lin_zero({nxt: 1, cur: -4, Q: -1}, positive=True))
                q.add(f"(= {q.var(xe.wname(w[2]))} {prodtable(A, B)})")
                q.add(f"(= {D} {optable(op, A, B)})")
                goal = [f"(= {q.var(na)} (+ (* 4 {q.var(wa)}) {A}))",
                        f"(= {q.var(nb)} (+ (* 4 {q.var(wb)}) {B}))",
                        f"(= {q.var(nd)} (+ (* 4 {q.var(wd)}) {D}))"]
                if i == lrows[0]:
                    goal += [f"(= {q.var(wa)} 0)", f"(= {q.var(wb)} 0)", f"(= {q.var(wd)} 0)"]
                q.add("(not (and " + " ".join(goal) + "))")
                run.obligation(f"logic/{op}/sound/chain/P{P}/row{i}", q.lines(), q.asserts, "unsat",
                               "gadget-soundness", replay=rp, meta=meta, batch=True, get_model=False)
                last = nx
            if lrows:
                if last[3] != oi:
                    run.inconclusive.append(f"logic/{op}/P{P}: returned witness is not the last output accumulator")
                # --- (2),(3) the binding: final accumulators are the inputs mod 4^P
                for side, (acc, inp) in (("a", (last[0], ai)), ("b", (last[1], bi))):
                    qb = xe.Query()
                    xe.apply_bounds(qb, bounds)
                    xe.encode_layout(qb, rowsem, layout, rows=rows)
                    for (s_, e_, k, w) in blocks:
                        qb.add(f"(< {qb.var(xe.wname(w))} {1 << k})")
                    qb.add(f"(not (= {qb.var(xe.wname(acc))} (mod {qb.var(xe.wname(inp))} {1 << (2 * P)})))")
                    run.query(f"logic/{op}/sound/bind-{side}/P{P}", qb, "unsat", "gadget-soundness",
                              replay=gadget_replay(run, ["logic", op, P], layout, violated,
                                                   complete=("logic", rowsem, pats, lrows + [lrows[-1] + 1], last[0], last[1],
                                                             ["logic", op, P])), meta=meta)
            else:
                q = xe.Query()
                xe.apply_bounds(q, bounds)
                q.add(f"(not (= {q.var(xe.wname(oi))} 0))")
                xe.encode_layout(q, rowsem, layout, rows=rows)
                run.query(f"logic/{op}/sound/P{P}", q, "unsat", "gadget-soundness", replay=rp, meta=meta)
            # small widths: the digit-wise statement is tied to the bit-vector definition directly
            if 0 < P <= 4:
                q5 = xe.Query()
                av, bv, ov = q5.var("av", 0, (1 << (2 * P)) - 1), q5.var("bv", 0, (1 << (2 * P)) - 1), q5.var("ov")
                accs = [("0", "0", "0")]
                for i in range(P):
                    A, B = q5.fresh(0, 3), q5.fresh(0, 3)
                    pa, pb, pd = accs[-1]
                    accs.append((f"(+ (* 4 {pa}) {A})", f"(+ (* 4 {pb}) {B})",
                                 f"(+ (* 4 {pd}) {optable(op, A, B)})"))
                q5.add(f"(= {av} {accs[-1][0]})")
                q5.add(f"(= {bv} {accs[-1][1]})")
                q5.add(f"(= {ov} {accs[-1][2]})")
                bvop = "bvand" if op == "and" else "bvxor"
                w_ = 2 * P
                q5.add(f"(not (= {ov} (bv2nat ({bvop} ((_ int2bv {w_}) {av}) ((_ int2bv {w_}) {bv})))))")
                run.query(f"logic/{op}/digitwise-is-bitwise/P{P}", q5, "unsat", "arithmetic-tie", get_model=False)
            for tag, (xa, xb) in (("ones", (R - 1, R - 1)), ("mixed", ((1 << (2 * P)) % R, (R - 1) >> 1))):
                lh, _ = extract(run, ["logic", op, P], env={"a": "%064x" % xa, "b": "%064x" % xb})
                honest_guard(run, f"logic/{op}/honest/P{P}/{tag}", rowsem, lh)
    summary_lemmas(run, rowsem, pats, used)
    run.bounds.append(f"pair counts {ps} x {{and,xor}} (thorough: every 0..=127); ALL field values of both inputs "
                      "and of every accumulator, product wire and truncation helper")
    run.outside.append("digit-wise quad relation => bitwise AND/XOR of the integers is the definition of the "
                       "bitwise operations in base 4 (tied to the bit-vector definition by the solver for P<=4)")
    run.outside.append("'satisfiable for all inputs' is decided at the honest witness of two boundary input pairs per width")
