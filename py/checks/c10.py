"""C10 -- bitwise AND / XOR components return exactly the truncated result."""
import random

import framework as fw
import smt
import xengine as xe
from smt import R
from checks.gadget_common import (load_rowsem, extract, honest_guard, range_patterns,
                                  summary_lemmas, gadget_replay, mval)

QUICK = [0, 1, 2, 8, 16, 63, 64, 126, 127]
LOGIC = xe.SEL.index("q_logic")


def optable(op, A, B):
    """SMT term for the quad operation as a 16-entry table"""
    t = "0"
    for a in range(4):
        for b in range(4):
            v = (a & b) if op == "and" else (a ^ b)
            t = f"(ite (and (= {A} {a}) (= {B} {b})) {v} {t})"
    return t


def prodtable(A, B):
    t = "0"
    for a in range(4):
        for b in range(4):
            t = f"(ite (and (= {A} {a}) (= {B} {b})) {a * b} {t})"
    return t


def logic_row_lemma(run, rowsem, sel, op):
    """Row lemma, proven once per operation from the REAL logic widget terms:
    (i) the components only depend on the wire differences (Type I);
    (ii) for field elements A,B,D,w: all components vanish  <=>
         A,B,D in 0..3, w = A*B, D = A op B   (both directions)."""
    ctx = rowsem.ctx
    names = ["a", "b", "c", "d", "a_w", "b_w", "d_w"]
    v = {n: ctx.var(n) for n in names}
    comps = [c for n_, c in rowsem.row_components(sel, v) if n_.startswith("logic")]
    zero = ctx.const(0)
    red = {"a": zero, "b": zero, "d": zero, "a_w": v["a_w"] - 4 * v["a"], "b_w": v["b_w"] - 4 * v["b"],
           "d_w": v["d_w"] - 4 * v["d"], "c": v["c"]}
    reduced = xe.subst(ctx, comps, red)
    for j, (c, rc) in enumerate(zip(comps, reduced)):
        run.identity(f"lemma/logic-row/{op}/depends-on-differences/{j}", c, rc)
    A, B, D, w = ctx.var("A"), ctx.var("B"), ctx.var("D"), ctx.var("w")
    inst = xe.subst(ctx, comps, {"a": zero, "b": zero, "d": zero, "a_w": A, "b_w": B, "d_w": D, "c": w})

    def build():
        q = xe.Query()
        As, Bs, Ds, ws = q.var("A"), q.var("B"), q.var("D"), q.var("w")
        real = "(and " + " ".join(q.zero(c) for c in inst) + ")"
        summ = (f"(and (<= {As} 3) (<= {Bs} 3) (<= {Ds} 3) (= {ws} {prodtable(As, Bs)}) "
                f"(= {Ds} {optable(op, As, Bs)}))")
        return q, real, summ
    q, real, summ = build()
    q.add(real)
    q.add(f"(not {summ})")
    run.query(f"lemma/logic-row/{op}/real=>summary", q, "unsat", "lemma/row-summary", timeout=120, get_model=False)
    q, real, summ = build()
    q.add(summ)
    q.add(f"(not {real})")
    run.query(f"lemma/logic-row/{op}/summary=>real", q, "unsat", "lemma/row-summary", timeout=120, get_model=False)
    return len(comps)


def run(run):
    rowsem = load_rowsem(run)
    pats = range_patterns(run)
    rnd = random.Random(run.seed)
    ps = list(range(128)) if run.tier == "thorough" else sorted(set(QUICK + [rnd.randrange(3, 126)]))
    run.add_functions(["Composer::append_logic_and::<P>", "Composer::append_logic_xor::<P>",
                       "Composer::append_logic_component", "Composer::bind_logic_accumulators",
                       "Composer::bind_truncated_input", "Composer::bind_truncation_split",
                       "Composer::assert_canonical_truncation", "Composer::range_check",
                       "Constraint::logic", "Constraint::logic_xor"])
    used = set()
    lemma_done = {}
    for op in ("and", "xor"):
        for P in ps:
            layout, _ = extract(run, ["logic", op, P])
            ai, bi, oi = layout.inputs["a"], layout.inputs["b"], layout.returned["out"]
            n = len(layout.gates)
            lrows = [i for i in range(layout.init_rows, n) if layout.gates[i][0][LOGIC] % R]
            if lrows:
                sel = layout.gates[lrows[0]][0]
                if any(layout.gates[i][0] != sel for i in lrows):
                    run.inconclusive.append(f"logic/{op}/P{P}: logic rows with differing selectors")
                    continue
                key = (op, tuple(sel))
                if key not in lemma_done:
                    lemma_done[key] = logic_row_lemma(run, rowsem, sel, op)
            blocks = [b for b in pats.find_blocks(layout) if b[1] - b[0] >= 3 and b[2] <= 254]
            used |= {b[2] for b in blocks}
            skip = set(lrows)
            init = {}
            for (s, e, k, w) in blocks:
                skip |= set(range(s, e))
                lo, hi = init.get(xe.wname(w), (0, R - 1))
                init[xe.wname(w)] = (lo, min(hi, (1 << k) - 1))
            rows = [i for i in xe.default_rows(layout) if i not in skip]
            # bounds: range rows of the logic chain give acc_{i+1} <= 4 acc_i + 3
            prop_rows = sorted(set(rows) | set(lrows))
            bounds, lem = xe.propagate_bounds(rowsem, layout, rows=prop_rows, init=init)
            run.bound_lemmas(f"logic/{op}/P{P}", lem)
            def violated(model, P=P, op=op, ai=ai, bi=bi, oi=oi):
                av, bv, ov = mval(model, ai), mval(model, bi), mval(model, oi)
                m = (1 << (2 * P)) - 1
                exp = (av & m) & (bv & m) if op == "and" else (av & m) ^ (bv & m)
                return ov != exp, {"a": hex(av), "b": hex(bv), "out": hex(ov), "expected": hex(exp)}
            meta = {"pairs": P, "rows": n, "logic_rows": len(lrows),
                    "range_blocks": [(b[2], b[1] - b[0]) for b in blocks]}
            rp = gadget_replay(run, ["logic", op, P], layout, violated)

            # --- (1) the chain: rows => digit-wise relation as INTEGER equalities,
            # one small query per logic row: the row (as its proven summary) and the
            # lemma-justified bounds of its six accumulator wires suffice; dropping the
            # other rows weakens the premises (sound).
            last = None
            for i in lrows:
                sel, w = layout.gates[i]
                nx = layout.gates[i + 1][1]
                q = xe.Query()
                for x_ in set(w) | set(nx):
                    if xe.wname(x_) in bounds:
                        q.var(xe.wname(x_), *bounds[xe.wname(x_)])
                An, Bn, Dn = f"quadA{i}", f"quadB{i}", f"quadD{i}"
                A, B, D = q.var(An, 0, 3), q.var(Bn, 0, 3), q.var(Dn, 0, 3)
                wa, wb, wd = xe.wname(w[0]), xe.wname(w[1]), xe.wname(w[3])
                na, nb, nd = xe.wname(nx[0]), xe.wname(nx[1]), xe.wname(nx[3])
                for (cur, nxt, Q) in ((wa, na, An), (wb, nb, Bn), (wd, nd, Dn)):
                    q.add(q.lin_zero({nxt: 1, cur: -4, Q: -1}, positive=True))
                q.add(f"(= {q.var(xe.wname(w[2]))} {prodtable(A, B)})")
                q.add(f"(= {D} {optable(op, A, B)})")
                goal = [f"(= {q.var(na)} (+ (* 4 {q.var(wa)}) {A}))",
                        f"(= {q.var(nb)} (+ (* 4 {q.var(wb)}) {B}))",
                        f"(= {q.var(nd)} (+ (* 4 {q.var(wd)}) {D}))"]
                if i == lrows[0]:
                    goal += [f"(= {q.var(wa)} 0)", f"(= {q.var(wb)} 0)", f"(= {q.var(wd)} 0)"]
                q.add("(not (and " + " ".join(goal) + "))")
                run.obligation(f"logic/{op}/sound/chain/P{P}/row{i}", q.lines(), q.asserts, "unsat",
                               "gadget-soundness", replay=rp, meta=meta, batch=True, get_model=False)
                last = nx
            if lrows:
                if last[3] != oi:
                    run.inconclusive.append(f"logic/{op}/P{P}: returned witness is not the last output accumulator")
                # --- (2),(3) the binding: final accumulators are the inputs mod 4^P
                for side, (acc, inp) in (("a", (last[0], ai)), ("b", (last[1], bi))):
                    qb = xe.Query()
                    xe.apply_bounds(qb, bounds)
                    xe.encode_layout(qb, rowsem, layout, rows=rows)
                    for (s_, e_, k, w) in blocks:
                        qb.add(f"(< {qb.var(xe.wname(w))} {1 << k})")
                    qb.add(f"(not (= {qb.var(xe.wname(acc))} (mod {qb.var(xe.wname(inp))} {1 << (2 * P)})))")
                    run.query(f"logic/{op}/sound/bind-{side}/P{P}", qb, "unsat", "gadget-soundness",
                              replay=gadget_replay(run, ["logic", op, P], layout, violated,
                                                   complete=("logic", rowsem, pats, lrows + [lrows[-1] + 1], last[0], last[1],
                                                             ["logic", op, P])), meta=meta)
            else:
                q = xe.Query()
                xe.apply_bounds(q, bounds)
                q.add(f"(not (= {q.var(xe.wname(oi))} 0))")
                xe.encode_layout(q, rowsem, layout, rows=rows)
                run.query(f"logic/{op}/sound/P{P}", q, "unsat", "gadget-soundness", replay=rp, meta=meta)
            # small widths: the digit-wise statement is tied to the bit-vector definition directly
            if 0 < P <= 4:
                q5 = xe.Query()
                av, bv, ov = q5.var("av", 0, (1 << (2 * P)) - 1), q5.var("bv", 0, (1 << (2 * P)) - 1), q5.var("ov")
                accs = [("0", "0", "0")]
                for i in range(P):
                    A, B = q5.fresh(0, 3), q5.fresh(0, 3)
                    pa, pb, pd = accs[-1]
                    accs.append((f"(+ (* 4 {pa}) {A})", f"(+ (* 4 {pb}) {B})",
                                 f"(+ (* 4 {pd}) {optable(op, A, B)})"))
                q5.add(f"(= {av} {accs[-1][0]})")
                q5.add(f"(= {bv} {accs[-1][1]})")
                q5.add(f"(= {ov} {accs[-1][2]})")
                bvop = "bvand" if op == "and" else "bvxor"
                w_ = 2 * P
                q5.add(f"(not (= {ov} (bv2nat ({bvop} ((_ int2bv {w_}) {av}) ((_ int2bv {w_}) {bv})))))")
                run.query(f"logic/{op}/digitwise-is-bitwise/P{P}", q5, "unsat", "arithmetic-tie", get_model=False)
            for tag, (xa, xb) in (("ones", (R - 1, R - 1)), ("mixed", ((1 << (2 * P)) % R, (R - 1) >> 1))):
                lh, _ = extract(run, ["logic", op, P], env={"a": "%064x" % xa, "b": "%064x" % xb})
                honest_guard(run, f"logic/{op}/honest/P{P}/{tag}", rowsem, lh)
    summary_lemmas(run, rowsem, pats, used)
    run.bounds.append(f"pair counts {ps} x {{and,xor}} (thorough: every 0..=127); ALL field values of both inputs "
                      "and of every accumulator, product wire and truncation helper")
    run.outside.append("digit-wise quad relation => bitwise AND/XOR of the integers is the definition of the "
                       "bitwise operations in base 4 (tied to the bit-vector definition by the solver for P<=4)")
    run.outside.append("'satisfiable for all inputs' is decided at the honest witness of two boundary input pairs per width")
