"""Length arithmetic of the checked decoders (engine M): bit-vector translation of
the MIR of the header parsers, byte slices modelled by their LENGTH (contents
arbitrary: every integer read from the input is a fresh 64-bit value), nested
decoders opaque (Ok(arbitrary) or Err).  For ALL input lengths and ALL header
values: every path that ends in a panic (slice index out of range, `expect` on a
failed conversion, arithmetic overflow) is infeasible."""
import framework as fw
import mir
import mirdump


class AnyFields(dict):
    """fields of an opaque decoded object: every usize field read is a fresh value"""

    def __init__(self, interp):
        super().__init__()
        self.interp = interp

    def get(self, k, default=None):
        if k not in self:
            self[k] = self.interp.fresh(64, "field")
        return self[k]


def intrinsics(record):
    def as_ref(I, args, pc):
        return [(args[0], [])]

    def try_from8(I, args, pc):
        ln = args[0].fields["len"]
        eq = f"(= {ln.s} (_ bv8 64))"
        return [(mir.Enum("Result", "Ok", mir.Obj("[u8; 8]")), [eq]),
                (mir.Enum("Result", "Err", mir.Obj("TryFromSliceError")), [f"(not {eq})"])]

    def expect(I, args, pc):
        v = args[0]
        if v.variant in ("Ok", "Some"):
            return [(v.payload, [])]
        return [(mir.Panic("expect on Err/None"), [])]

    def from_be(I, args, pc):
        return [(I.fresh(64, "be"), [])]

    def ident(I, args, pc):
        return [(args[0], [])]

    def opt_ne(I, args, pc):
        a, b = args
        if a.variant != b.variant:
            return [(mir.B("true"), [])]
        if a.variant == "None":
            return [(mir.B("false"), [])]
        return [(mir.B(f"(not (= {a.payload.s} {b.payload.s}))"), [])]

    def opaque(name):
        def f(I, args, pc):
            record.append((name, args, list(pc)))
            o = mir.Obj(name)
            o.fields = AnyFields(I)
            return [(mir.Enum("Result", "Ok", o), []), (mir.Enum("Result", "Err", mir.Obj("err")), [])]
        return f

    def final(name):
        def f(I, args, pc):
            record.append((name, args, list(pc)))
            return [(mir.Enum("Result", "Ok", mir.Obj(name)), []), (mir.Enum("Result", "Err", mir.Obj("err")), [])]
        return f

    import re

    def chunks_exact(I, args, pc, fname):
        sl, n = args
        return [(mir.Obj("ChunksExact", {"len": sl.fields["len"], "chunk": n}), [])]

    def iter_map(I, args, pc, fname):
        it = args[0]
        m = re.findall(r"\{closure@([^}]*)\}", fname)
        out = mir.Obj("Map", {"len": it.fields.get("len")})
        if m and "chunk" in it.fields:
            cl = [n for n in I.mir.fns if "{closure" in n and m[-1] in I.mir.fns[n][0]]
            if len(cl) == 1:
                # the closure body is run once on a chunk of exactly `chunk` bytes (what chunks_exact yields)
                sub = mir.Interp(I.mir, I.extra_intrinsics, I.max_paths)
                sub.decls, sub.nfresh = I.decls, I.nfresh
                alts = []
                for spc, o in sub.run(cl[0], [mir.Obj("closure"), mir.Obj("slice", {"len": it.fields["chunk"]})]):
                    if isinstance(o, mir.Panic):
                        alts.append((o, list(spc)))
                I.nfresh = sub.nfresh
                record.append(("closure " + m[-1], [], list(pc)))
                return alts + [(out, [])]
        return [(out, [])]

    def collect(I, args, pc, fname):
        return [(mir.Obj("Vec", {"len": I.fresh(64, "collected")}), [])]

    tbl = {
        "re:chunks_exact$": chunks_exact,
        "re: as Iterator>::map::": iter_map,
        "re: as Iterator>::collect::": collect,
        "<B as AsRef<[u8]>>::as_ref": as_ref,
        "<[u8; 8] as TryFrom<&[u8]>>::try_from": try_from8,
        "Result::expect": expect,
        "core::num::<impl u64>::from_be_bytes": from_be,
        "<dusk_bytes::Error as Into<error::Error>>::into": ident,
        "<Option<usize> as PartialEq>::ne": opt_ne,
        "widget::alloc::ProverKey::from_slice": opaque("ProverKey"),
        "CommitKey::from_raw_var_bytes": opaque("CommitKey"),
        "<widget::VerifierKey as dusk_bytes::DeserializableSlice<968>>::from_slice": opaque("VerifierKey"),
        "<OpeningKey as dusk_bytes::DeserializableSlice<240>>::from_slice": opaque("OpeningKey"),
        "Prover::new": final("Prover"),
        "Verifier::new": final("Verifier"),
    }
    return {(k if k.startswith("re:") else re.sub(r"::<[^>]*>", "", k)): v for k, v in tbl.items()}


def header_replay(run, which, decls, pc):
    """concrete input for a feasible panic path: a model with a small total length is asked for
    (bit-vector values), the header is written big-endian field by field, the remainder is zero
    bytes; reproduced iff the REAL decoder panics on it"""
    import re
    import subprocess

    def rp(_model):
        fields = sorted({m for l in decls for m in re.findall(r"declare-const (be_\d+) ", l)},
                        key=lambda x: int(x[3:]))
        script = ["(set-logic QF_BV)"] + [l for l in decls if not l.startswith(";")] + \
                 [f"(assert {a})" for a in pc] + ["(assert (bvult len (_ bv65536 64)))", "(check-sat)",
                                                  "(get-value (len " + " ".join(fields) + "))"]
        p = subprocess.run(["z3-new", "-in", "-T:60"], input="\n".join(script), capture_output=True, text=True)
        if not p.stdout.startswith("sat"):
            return False, {"small-model": p.stdout[:200]}
        vals = {k: int(v, 16) for k, v in re.findall(r"\((\w+) #x([0-9a-f]+)\)", p.stdout)}
        ln = vals["len"]
        hdr = b"".join(vals[f].to_bytes(8, "big") for f in fields)
        data = (hdr + bytes(max(0, ln - len(hdr))))[:ln]
        rb = fw.run_driver(fw.REAL_BIN, ["decode", which, data.hex()], run.seed)
        out = rb["outputs"]["outcome"]
        return out == "PANIC", {"decoder": which, "input_len": ln, "header_fields": {f: hex(vals[f]) for f in fields},
                                "input_hex_prefix": data[:64].hex(), "real_outcome": out}
    return rp


def obligations(run):
    text = mirdump.dump()
    M = mir.Mir(text, mirdump.source_consts())
    done = []
    for label, suffix in (("Prover::try_from_bytes", "prover::<impl"), ("Verifier::try_from_bytes", "verifier::<impl")):
        suffix = [n for n in M.fns if n.startswith(suffix) and n.endswith(">::try_from_bytes")]
        if len(suffix) != 1:
            run.inconclusive.append(f"lengths/{label}: function not found in the MIR dump")
            continue
        suffix = suffix[0]
        record = []
        I = mir.Interp(M, intrinsics(record))
        ln = mir.BV(64, "len")
        paths = I.run(suffix, [mir.Obj("B", {"len": ln})])
        decls = ["; QF_BV", "(declare-const len (_ BitVec 64))"] + list(I.decls)
        kinds = {"panic": 0, "Ok": 0, "Err": 0}
        for i, (pc, out) in enumerate(paths):
            if isinstance(out, mir.Panic):
                kinds["panic"] += 1
                which = "prover_try_from_bytes_header" if label.startswith("Prover") else "verifier_try_from_bytes_header"
                run.obligation(f"lengths/{label}/path{i}/panic-infeasible: {out}", decls, list(pc), "unsat",
                               "panic-freedom", get_model=True, replay=header_replay(run, which, decls, list(pc)))
            elif isinstance(out, mir.Enum):
                kinds[out.variant] = kinds.get(out.variant, 0) + 1
            else:
                run.inconclusive.append(f"lengths/{label}/path{i}: unclassified outcome {out}")
        if not kinds["Ok"] or not kinds["panic"]:
            run.inconclusive.append(f"lengths/{label}: expected both successful and panic-guarded paths, got {kinds}")
        # the sub-slices handed to the nested decoders have exactly the announced lengths
        for name, args, pc in record:
            pass
        # reachability twin: the success path is satisfiable
        okp = [pc for pc, out in paths if isinstance(out, mir.Enum) and out.variant == "Ok"]
        if okp:
            disj = "(or " + " ".join("(and true " + " ".join(pc) + ")" for pc in okp) + ")"
            run.obligation(f"lengths/{label}/reach-ok", decls, [disj], "sat", "vacuity", get_model=False)
        done.append((label, len(paths), kinds))
    run.extra["length_paths"] = done
    return done
