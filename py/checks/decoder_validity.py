"""Checked decoders admit only valid group elements (engine S with invalid-capable elements).

Every group element of the input is `a*G + t*T + c*O`: dlog a, torsion component t,
off-curve component c, all free.  `is_on_curve`, `is_torsion_free`, `is_identity` and the
dependency's checked point decoders are decisions of the path oracle on the coefficients
(cancellation between several elements is represented: the coefficient of a sum is the sum
of the coefficients).  All paths of the real decoder are enumerated; for every ACCEPTING
path the solver shows that the path condition forces t_i = c_i = 0 for every element (and
a_i != 0 for the three opening-key elements)."""
import json
import os

import framework as fw
import smt
from checks import paths as pth
from checks.common import real_at

CASES_QUICK = [("commit_raw", 1), ("commit_raw", 2), ("commit_raw", 3), ("commit_checked", 2), ("opening", 0),
               ("pp_checked", 1), ("pp_checked", 0), ("polynomial", 3), ("verifier", 0), ("prover", 3)]
CASES_THOROUGH = CASES_QUICK + [("commit_raw", 4), ("commit_raw", 6), ("commit_checked", 4), ("pp_checked", 2),
                                ("polynomial", 6), ("prover", 0)]


def obligations(run):
    cases = CASES_QUICK if run.tier == "quick" else CASES_THOROUGH
    table = []
    for which, n in cases:
        args = ["decode_validity", which, str(n)]
        sb = fw.run_driver(fw.SYM_BIN, args, run.seed, extra_env={"VERIF_MAX_PATHS": "20000"})
        ctx = smt.Ctx()
        nodes = ctx.from_nodes(sb["nodes"])
        out = sb["outputs"]
        dec = out["decode"]
        if not dec["complete"]:
            run.inconclusive.append(f"validity/{which}{n}: path enumeration incomplete ({len(dec['paths'])} paths)")
        elems = out["elements"]
        bad_terms, restrict = [], []
        for e in elems:
            if "kappa" in e["nodes"]:
                k_ = nodes[e["nodes"]["kappa"]]
                bad_terms.append(f"(not (= (mod {smt.ref(k_)} {smt.R}) 0))")
                restrict.append(f"(or (= {smt.ref(k_)} 0) (= {smt.ref(k_)} 1))")
                continue
            a, t, c = (nodes[e["nodes"][k]] for k in ("a", "t", "c"))
            bad_terms += [f"(not (= (mod {smt.ref(t)} {smt.R}) 0))", f"(not (= (mod {smt.ref(c)} {smt.R}) 0))"]
            if which in ("opening", "pp_checked", "verifier") and e["name"] in ("g", "h", "xh"):
                bad_terms.append(f"(= (mod {smt.ref(a)} {smt.R}) 0)")
            restrict += [f"(or (= {smt.ref(t)} 0) (= {smt.ref(t)} 1) (= {smt.ref(t)} {smt.R - 1}))",
                         f"(or (= {smt.ref(c)} 0) (= {smt.ref(c)} 1))"]
        roots_e = [nodes[v] for e in elems for v in e["nodes"].values()]
        accepted = 0
        for i, pj in enumerate(dec["paths"]):
            if pj["panic"] is not None:
                # a path on which the decoder (or the first use of what it accepted) panics must be
                # infeasible; a model is replayed on the unpatched build
                P = pth.Path(pj, nodes)
                roots = []
                conds = P.cond_smt(ctx, roots)
                lines = smt.smt_defs(roots + roots_e)

                def rpp(model, args=args, elems=elems):
                    env = {}
                    for e in elems:
                        for k in ("t", "c", "kappa"):
                            v = model.get(smt.vname(f"{e['name']}_{k}"))
                            if v is not None:
                                env[f"{e['name']}_{k}"] = "%064x" % (1 if v % smt.R else 0)
                    rb = real_at(args, env, run.seed)
                    r = rb["outputs"]["decode"]["paths"][0]
                    return r.get("panic") is not None, {"driver": args, "env": env, "real": r}
                run.obligation(f"validity/{which}{n}/path{i}/panic-infeasible", lines, conds + restrict, "unsat",
                               "panic-freedom", replay=rpp, meta={"panic": pj["panic"]})
                continue
            if not pj["result"]["accepted"]:
                continue
            accepted += 1
            P = pth.Path(pj, nodes)
            # conditions of the form `variable == constant` are applied as substitutions to the other
            # conditions (they stay asserted themselves): keeps the products with the formal
            # generators out of the query
            import xengine as xe
            sub = P.substitution(ctx)
            conds, roots = [], []
            for a, b, eq, forced in P.conds:
                if not (eq and ((a.op == "v" and b.op == "c") or (b.op == "v" and a.op == "c"))):
                    a, b = xe.subst(ctx, [a, b], sub)
                d = a - b
                roots.append(d)
                atom = f"(= (mod {smt.ref(d)} {smt.R}) 0)"
                conds.append(atom if eq else f"(not {atom})")
            lines = smt.smt_defs(roots + roots_e)
            goal = "(or " + " ".join(bad_terms) + ")"

            def rp(model, lines=lines, conds=conds, goal=goal, args=args, elems=elems):
                r = smt.check(lines, conds + [goal] + restrict, "z3", 60, get_model=True)
                if r.status != "sat":
                    return False, {"restricted_model": r.status}
                env = {}
                for e in elems:
                    for k in ("t", "c", "a", "kappa"):
                        v = r.model.get(smt.vname(f"{e['name']}_{k}"))
                        if v is None:
                            continue
                        v %= smt.R
                        if k == "a":
                            if v == 0 and e["name"] in ("g", "h", "xh"):
                                env[f"{e['name']}_zero"] = "%064x" % 1
                        else:
                            env[f"{e['name']}_{k}"] = "%064x" % v
                rb = real_at(args, env, run.seed)
                o = rb["outputs"]
                res = o["decode"]["paths"][0]["result"]
                zero = any(k.endswith("_zero") for k in env)
                bad = bool(res and res.get("accepted")) and (o["invalid_element_present"] or zero)
                return bad, {"driver": args, "env": env, "real": res, "invalid_element_present": o["invalid_element_present"]}
            run.obligation(f"validity/{which}{n}/path{i}/accepted-implies-valid", lines, conds + [goal], "unsat",
                           "decoder-validity", replay=rp)
        if accepted == 0 and not (which == "pp_checked" and n == 0):
            run.inconclusive.append(f"validity/{which}{n}: no accepting path (vacuous)")
        table.append({"decoder": which, "elements": len(elems), "paths": len(dec["paths"]), "accepting": accepted})
    run.extra["validity_cases"] = table
    run.add_functions(["CommitKey::from_raw_var_bytes", "CommitKey::from_slice", "OpeningKey::from_slice",
                       "OpeningKey::try_new", "PublicParameters::from_slice", "Polynomial::from_slice",
                       "Verifier::try_from_bytes (group elements of the verifier key and opening key)",
                       "Prover::try_from_bytes (raw commit key and verifier key elements)", "VerifierKey::from_slice"])
    run.bounds.append("decoder validity: " + ", ".join(f"{w}({n})" for w, n in cases) + " group elements per input, each "
                      "with arbitrary dlog, torsion and off-curve components; all decoder paths")
    run.assumptions.append("group model: an element is a*G + t*T + c*O with formal torsion / off-curve generators; "
                           "the dependency's validity tests are exactly `t = 0` / `c = 0` (linear in sums)")
