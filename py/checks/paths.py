"""Path bundles produced by the symbolic `component` driver."""
import smt
import xengine as xe
from smt import R


class SymLayout:
    """layout whose selectors / witness values / pis are Exprs"""

    def __init__(self, j, nodes):
        self.gates = [([nodes[x] for x in g[0]], g[1]) for g in j["gates"]]
        self.witnesses = [nodes[x] for x in j["witnesses"]]
        self.pis = {int(r): nodes[v] for r, v in j["pis"]}
        self.inputs = j.get("inputs", {})
        self.returned = j.get("returned", {})
        self.init_rows = j.get("init_rows", 0)
        self.error = j.get("error")

    def shape(self):
        return (tuple((tuple(s.id for s in sel), tuple(w)) for sel, w in self.gates),
                tuple(sorted(self.pis)))


class Path:
    def __init__(self, j, nodes):
        self.decisions = j.get("decisions", [])
        self.conds = [(nodes[c["a"]], nodes[c["b"]], c["eq"], c["forced"]) for c in j.get("path", [])]
        self.panic = j.get("panic")
        self.layout = SymLayout(j["layout"], nodes) if j.get("layout") else None

    def substitution(self, ctx):
        """var -> const substitutions implied by `var == const` conditions"""
        m = {}
        for a, b, eq, forced in self.conds:
            if not eq:
                continue
            if a.op == "v" and b.op == "c":
                m[a.args[0]] = b
            elif b.op == "v" and a.op == "c":
                m[b.args[0]] = a
        return m

    def cond_smt(self, ctx, lines_roots):
        """SMT assertions for the path condition; appends Exprs whose defs are
        needed to lines_roots"""
        out = []
        for a, b, eq, forced in self.conds:
            d = a - b
            lines_roots.append(d)
            atom = f"(= (mod {smt.ref(d)} {R}) 0)"
            out.append(atom if eq else f"(not {atom})")
        return out


def load(bundle):
    ctx = smt.Ctx()
    nodes = ctx.from_nodes(bundle["nodes"])
    return ctx, nodes, [Path(p, nodes) for p in bundle["outputs"]["paths"]]


def matching_path(paths, env):
    """the path whose conditions hold at a concrete environment"""
    for p in paths:
        ok = True
        for a, b, eq, forced in p.conds:
            val = smt.evaluate([a, b], env)
            if (val[a.id] == val[b.id]) != eq:
                ok = False
                break
        if ok:
            return p
    return None


def validate_paths(run, paths, real_bundle):
    """translator validation for path bundles: the symbolic path selected by
    the real build's environment must agree with the real build's outputs"""
    env = {k: int(v, 16) for k, v in real_bundle["env"].items()}
    p = matching_path(paths, env)
    rp = real_bundle["outputs"]["paths"][0]
    run.validation["points"] += 1
    if p is None:
        run.inconclusive.append("validation: no symbolic path matches the real environment")
        run.validation["mismatches"] += 1
        return False
    if (p.panic is None) != (rp["panic"] is None):
        run.inconclusive.append("validation: panic status differs between symbolic path and real run")
        run.validation["mismatches"] += 1
        return False
    if p.layout is None:
        return True
    rl = rp["layout"]
    roots, expect = [], []
    for (sel, w), rg in zip(p.layout.gates, rl["gates"]):
        if list(w) != list(rg[1]):
            run.inconclusive.append("validation: wiring differs")
            run.validation["mismatches"] += 1
            return False
        roots += sel
        expect += [int(x, 16) for x in rg[0]]
    if len(p.layout.gates) != len(rl["gates"]):
        run.inconclusive.append("validation: gate count differs")
        run.validation["mismatches"] += 1
        return False
    roots += p.layout.witnesses
    expect += [int(x, 16) for x in rl["witnesses"]]
    val = smt.evaluate(roots, env)
    bad = sum(1 for e, x in zip(roots, expect) if val[e.id] != x)
    run.validation["outputs_compared"] += len(roots)
    run.validation["mismatches"] += bad
    if bad:
        run.inconclusive.append(f"validation: {bad} scalar outputs differ")
    return bad == 0
