"""Shared plumbing for the verifier checks (C02, C03, C04)."""
import framework as fw
import smt
from smt import R
from spec import verifier as vspec

LABEL = b"verif-label"


class VRun:
    """one symbolic run of the real verifier (all paths)"""

    def __init__(self, run, n, pi_rows, npi, version, explore="all"):
        self.n, self.pi_rows, self.npi, self.version = n, pi_rows, npi, version
        self.args = ["verify", str(n), ",".join(map(str, pi_rows)) if pi_rows else "-", str(npi), version]
        sb = fw.run_driver(fw.SYM_BIN, self.args + ([explore] if explore else []), run.seed)
        self.bundle = sb
        self.ctx = smt.Ctx()
        self.nodes = self.ctx.from_nodes(sb["nodes"])
        self.paths = sb["outputs"]["paths"]
        self.complete = sb["meta"].get("complete", True)
        run.add_functions(sb["meta"]["functions"])

    def conds(self, p):
        return [(self.nodes[c["a"]], self.nodes[c["b"]], c["eq"], c["forced"]) for c in p["path"]]

    def accept_paths(self):
        return [p for p in self.paths if p["result"] and p["result"].get("result") == "Ok"]

    def main_accept(self):
        """the accepting path on which every earlier fork took the generic
        (not-equal) branch"""
        for p in self.accept_paths():
            d = p["decisions"]
            if d and d[-1] and not any(d[:-1]):
                return p
        return None

    def history(self, p):
        ev = [e for e in p["events"] if isinstance(e, dict) and e.get("label") == "u_challenge"]
        if not ev:
            return None, {}
        hist = ev[-1]["history"] + [f"c|u_challenge|{ev[-1]['challenge']}"]
        ch = {}
        for h in hist:
            k, lab, payload = h.split("|", 2)
            if k == "c":
                ch[lab] = payload
        return hist, ch

    def spec_env(self, ch_names):
        ctx = self.ctx
        v = {}
        import itertools
        for nm in ["vk_q_m", "vk_q_l", "vk_q_r", "vk_q_o", "vk_q_f", "vk_q_c", "vk_q_arith", "vk_q_logic",
                   "vk_q_range", "vk_q_fixed", "vk_q_var", "vk_s1", "vk_s2", "vk_s3", "vk_s4", "ok_g", "ok_h",
                   "ok_xh", "a_comm", "b_comm", "c_comm", "d_comm", "z_comm", "t_low", "t_mid", "t_high",
                   "t_fourth", "w_z", "w_zw", "a_eval", "b_eval", "c_eval", "d_eval", "a_w_eval", "b_w_eval",
                   "d_w_eval", "q_arith_eval", "q_c_eval", "q_l_eval", "q_r_eval", "s1_eval", "s2_eval",
                   "s3_eval", "z_eval"]:
            v[nm] = ctx.var(nm)
        ch = {lab: ctx.var(name) for lab, name in ch_names.items()}
        pis = [ctx.var(f"pi{i}") for i in range(self.npi)]
        return v, ch, pis


def render_spec_sequence(vr, ch_names):
    """spec sequence -> the history strings the vendored merlin would record"""
    ctx = vr.ctx
    out = []
    for item in vspec.transcript_sequence(vr.version, LABEL, vr.n, vr.npi):
        if item[0] == "c":
            out.append(f"c|{item[1]}|{ch_names.get(item[1], '?')}")
            continue
        _, lab, (kind, val) = item
        if kind == "bytes":
            out.append(f"m|{lab}|x:{val.hex()}")
        elif kind == "u64":
            out.append(f"m|{lab}|x:{int(val).to_bytes(8, 'little').hex()}")
        elif kind == "s":
            out.append(f"m|{lab}|s:{ctx.var(val).id}")
        elif kind == "ch":
            out.append(f"m|{lab}|s:{ctx.var(ch_names.get(val, '?')).id}")
        elif kind == "g1":
            out.append(f"m|{lab}|g1:{ctx.var(val).id}")
    return out


def solve_linear(root, env, var):
    """root is affine in `var`: returns the value of var making root == 0 at env
    (None if the coefficient vanishes)"""
    e0 = dict(env, **{var: 0})
    e1 = dict(env, **{var: 1})
    b = smt.evaluate([root], e0)[root.id]
    a1 = smt.evaluate([root], e1)[root.id]
    if b is None or a1 is None:
        return None
    a = (a1 - b) % R
    if a == 0:
        return None
    return (-b * pow(a, R - 2, R)) % R


def scripted_at(args, env, seed=0):
    """Replay with a scripted random oracle: the REAL verifier code on concrete
    values, compiled against the dependency copy (which runs the original
    arithmetic on untagged values) and the vendored merlin returning the
    challenge values given in `env` (keys ch_<label>_<hash>)."""
    import json, os, tempfile
    os.makedirs(fw.OUT, exist_ok=True)
    fd, p = tempfile.mkstemp(prefix="env_", suffix=".json", dir=fw.OUT)
    with os.fdopen(fd, "w") as f:
        json.dump(env, f)
    try:
        return fw.run_driver(fw.SYM_BIN, args, seed, env_file=p, extra_env={"VERIF_CONCRETE": "1"})
    finally:
        os.unlink(p)


def accept_replay(run, vr, V_real, V_spec, tries=3):
    """Replay for an acceptance-polynomial difference: build concrete proofs
    (i) that the SPEC accepts and (ii) that the symbolic REAL polynomial
    accepts, run the real verifier (unpatched build) on both, and report a
    violation iff the real verifier disagrees with the spec on one of them."""
    import random
    from checks.common import real_at

    def rp(model):
        names = smt.variables([V_real, V_spec])
        rnd = random.Random(run.seed * 7919 + 13)
        detail = []
        for t in range(tries):
            env = {n: rnd.randrange(1, R) for n in names}
            if t == 0:
                for n in names:
                    v = model.get(smt.vname(n))
                    if v is not None:
                        env[n] = v % R
            for which, root in (("spec", V_spec), ("real", V_real)):
                wz = solve_linear(root, env, "w_z")
                if wz is None:
                    continue
                e2 = dict(env, w_z=wz)
                henv = {k: "%064x" % v for k, v in e2.items()}
                rb = scripted_at(vr.args, henv, run.seed)
                res = rb["outputs"]["paths"][0]["result"]
                got_ok = bool(res) and res.get("result") == "Ok"
                sv = smt.evaluate([V_spec], e2)[V_spec.id]
                spec_ok = sv == 0
                detail.append({"constructed_for": which, "real_verifier": res, "spec_accepts": spec_ok})
                if got_ok != spec_ok:
                    return True, {"env": henv, "driver": vr.args, "trials": detail}
        return False, {"trials": detail}
    return rp
