"""C14 -- fixed-base multiplication returns [s]G for canonical s only.

The rows are those emitted by the REAL `component_mul_generator` /
`append_fixed_base_signed_digits` (extracted through the composer seam), the
row semantics those of the REAL fixed-base widget (symbolic run).  Decided by
the solver, for ALL values of every witness (scalar, 256 digits, scalar and
point accumulators, xy products, range-check internals):

  canonical   rows of assert_canonical_jubjub_scalar  =>  s < r_jubjub
  init        rows  =>  accumulators start at (0, 1) and 0
  chain       per round k (256 lemmas): |A_k| <= B_k, bit row  =>
              A_{k+1} = 2 A_k + e, e in {-1,0,1}, |A_{k+1}| <= 2 B_k + 1
              (A = centred integer of the scalar accumulator; pinned
              accumulators -- the leading-zero pin -- reset B to 0)
  closing     |A_256| <= B_256, closing row, s < r_jubjub  =>  A_256 = s as INTEGERS
  telescope   the 256 conclusions  =>  s = sum e_k 2^(255-k)
  point step  for e in {-1,0,1}: the x / y / xy components of the real row ==
              the cross-multiplied twisted-Edwards sum of the accumulator and
              e * (x_beta, y_beta)  (Type I identities, table entry symbolic)
  table       (q_l, q_r, q_c) of round k == [2^(255-k)]G, computed independently

plus, natively: honest witnesses at boundary scalars satisfy the rows and return
the independently computed [s]G; non-canonical scalars are refused.

Cited, not encoded: completeness of the Edwards law on curve points
(denominators non-zero) and the group law (associativity/distributivity) that
turns the 256 per-round sums into [sum e_k 2^(255-k)]G.
"""
import random

import framework as fw
import smt
import xengine as xe
from smt import R, EDWARDS_D
from xengine import SEL
from spec import jubjub as jj
from spec import rows as spec_rows
from checks.gadget_common import (load_rowsem, extract, honest_guard, range_patterns,
                                  summary_lemmas, gadget_replay, mval)

RJ = jj.RJ
HALF = R // 2


class Shape:
    """roles of rows and witnesses, read off the extracted layout"""

    def __init__(self, layout):
        self.layout = layout
        qf = SEL.index("q_fixed")
        self.fixed = [i for i, (s, _) in enumerate(layout.gates) if s[qf] % R]
        if not self.fixed or self.fixed != list(range(self.fixed[0], self.fixed[0] + len(self.fixed))):
            raise ValueError("fixed-base rows are not one contiguous block")
        self.rounds = len(self.fixed)
        last = self.fixed[-1]
        if last + 1 >= len(layout.gates):
            raise ValueError("no anchor row after the last fixed-base row")
        self.anchor = last + 1
        g = layout.gates
        self.ax = [g[i][1][0] for i in self.fixed] + [g[self.anchor][1][0]]
        self.ay = [g[i][1][1] for i in self.fixed] + [g[self.anchor][1][1]]
        self.xy = [g[i][1][2] for i in self.fixed]
        self.ab = [g[i][1][3] for i in self.fixed] + [g[self.anchor][1][3]]
        self.other = [i for i in xe.default_rows(layout) if i not in self.fixed]
        self.s = layout.inputs["s"]
        self.out = layout.returned.get("out")


def encode_other(q, rowsem, layout, shape, pats):
    """all rows outside the fixed-base block, range blocks summarised"""
    blocks = [b for b in pats.find_blocks(layout) if b[1] - b[0] >= 3 and b[2] <= 254
              and not (set(range(b[0], b[1])) & set(shape.fixed))]
    skip = set()
    for (s_, e_, k, w) in blocks:
        skip |= set(range(s_, e_))
    rows = [i for i in shape.other if i not in skip]
    xe.encode_layout(q, rowsem, layout, rows=rows)
    for (s_, e_, k, w) in blocks:
        q.add(f"(< {q.var(xe.wname(w))} {1 << k})")
    return blocks


def inv_s(v, B):
    """SMT: the centred integer of v has absolute value <= B"""
    if B is None:
        return "true"
    if B == 0:
        return f"(= {v} 0)"
    return f"(or (<= {v} {B}) (>= {v} {R - B}))"


def sg(v, B):
    """SMT: centred integer of v (valid under inv_s(v, B))"""
    if B is None:
        return f"(ite (<= {v} {HALF}) {v} (- {v} {R}))"
    if B == 0:
        return "0"
    return f"(ite (<= {v} {B}) {v} (- {v} {R}))"


def forge(shape, gen, s_val, T, init=None):
    """a full assignment of the fixed-base block for digit integer T (Python
    arithmetic only): model entries for accumulators, xy products"""
    n = shape.rounds
    digits = jj.signed_binary(T, n)
    tab = jj.table(gen, n)
    ax, ay, ab = init if init else (0, 1, 0)
    m = {}
    for k in range(n):
        e = digits[k]
        m[shape.ax[k]], m[shape.ay[k]], m[shape.ab[k]] = ax, ay, ab
        px, py = tab[k]
        m[shape.xy[k]] = (e * px * py) % R
        alpha = jj.IDENTITY if e == 0 else (tab[k] if e == 1 else jj.neg(tab[k]))
        t = EDWARDS_D * ax * ay % R * alpha[0] * alpha[1] % R
        if (1 + t) % R == 0 or (1 - t) % R == 0:
            raise ValueError("degenerate denominator")
        ax, ay = ((ax * alpha[1] + ay * alpha[0]) * jj.inv(1 + t) % R,
                  (ay * alpha[1] + ax * alpha[0]) * jj.inv(1 - t) % R)  # both from the old (ax, ay)
        ab = (2 * ab + e) % R
    m[shape.ax[n]], m[shape.ay[n]], m[shape.ab[n]] = ax, ay, ab
    return {smt.vname(xe.wname(i)): v for i, v in m.items()}, (ax, ay)


def make_replay(run, gargs, layout, shape, gen, rowsem, pats, pick):
    """replay through the real compiler / prover / verifier.  `pick(model)` gives
    (s, T, init) for the forged digit assignment; reproduced iff the proof of the
    forged assignment verifies and the returned point differs from the
    independently computed [s]G or s is not canonical."""
    state = {}

    def violated(model):
        s_val, pt = state["s"], state["pt"]
        want = jj.mul(s_val, gen) if s_val < RJ else None
        bad = s_val >= RJ or pt != want
        return bad, {"s": hex(s_val), "canonical": s_val < RJ, "returned": [hex(pt[0]), hex(pt[1])],
                     "native_sG": [hex(want[0]), hex(want[1])] if want else None,
                     "digit_integer": hex(state["T"]) if state["T"] >= 0 else "-" + hex(-state["T"])}

    inner = gadget_replay(run, gargs, layout, violated, complete=("blocks", rowsem, pats))

    def rp(model):
        try:
            s_val, T, init = pick(model)
            forged, pt = forge(shape, gen, s_val, T, init)
        except ValueError as e:
            return False, {"forge": str(e)}
        state.update(s=s_val, T=T, pt=pt)
        full = dict(model)
        full.update(forged)
        full[smt.vname(xe.wname(shape.s))] = s_val
        return inner(full)
    return rp


def check_generator(run, rowsem, pats, gkey, tag, used):
    gargs = ["mul_generator", gkey]
    layout, b = extract(run, gargs, env={"s": "%064x" % 5})
    try:
        shape = Shape(layout)
    except ValueError as e:
        run.inconclusive.append(f"{tag}: layout not recognised: {e}")
        return
    gen = tuple(int(x, 16) for x in layout.returned["gen"])
    if not jj.on_curve(gen) or jj.mul(RJ, gen) != jj.IDENTITY or gen == jj.IDENTITY:
        run.inconclusive.append(f"{tag}: generator reported by the driver is not a prime-order point")
        return
    n = shape.rounds
    # the layout reached through the seam (any scalar, any digits) has the same rows
    lz, _ = extract(run, ["fixed_digits", gkey], env={"s": "%064x" % (R - 1)})
    if lz.shape() != layout.shape():
        run.inconclusive.append(f"{tag}: seam layout differs from component_mul_generator's")
    if shape.out != [shape.ax[n], shape.ay[n]]:
        run.violations.append((f"{tag}/returned-wires", _note(run, tag, "returned point is not the final accumulator")))

    # ---- table constants: independent doubling chain
    tab = jj.table(gen, n)
    bad = []
    for k, i in enumerate(shape.fixed):
        sel = layout.gates[i][0]
        got = (sel[SEL.index("q_l")], sel[SEL.index("q_r")], sel[SEL.index("q_c")], sel[SEL.index("q_fixed")])
        want = (tab[k][0], tab[k][1], tab[k][0] * tab[k][1] % R, 1)
        if got != want:
            bad.append(k)
    run.validation["points"] += n
    run.validation["outputs_compared"] += 4 * n
    if bad:
        run.validation["mismatches"] += len(bad)

    def pick_plain(model):
        return mval(model, shape.s), mval(model, shape.s), None

    if bad:
        # a wrong table entry: the honest witness returns a point other than [s]G for a scalar
        # whose digit at that round is non-zero -- replayed natively below (honest/point)
        run.extra.setdefault("table_mismatch_rounds", {})[tag] = bad[:8]

    # ---- canonical: s < r_jubjub
    q = xe.Query()
    blocks = encode_other(q, rowsem, layout, shape, pats)
    used |= {b_[2] for b_ in blocks}
    sv = q.var(xe.wname(shape.s))
    q.add(f"(>= {sv} {RJ})")
    run.query(f"{tag}/canonical", q, "unsat", "gadget-soundness",
              replay=make_replay(run, gargs, layout, shape, gen, rowsem, pats, pick_plain),
              meta={"rows": len(shape.other), "range_blocks": [(b_[2], b_[1] - b_[0]) for b_ in blocks]})
    # non-vacuity of the premise: the same rows with s = r_jubjub - 1 are satisfiable
    qv = xe.Query()
    encode_other(qv, rowsem, layout, shape, pats)
    qv.add(f"(= {qv.var(xe.wname(shape.s))} {RJ - 1})")
    run.query(f"{tag}/canonical/premise-satisfiable", qv, "sat", "vacuity", get_model=False)

    # ---- init: accumulators start at identity / zero
    q = xe.Query()
    encode_other(q, rowsem, layout, shape, pats)
    a0, y0, b0 = (q.var(xe.wname(w)) for w in (shape.ax[0], shape.ay[0], shape.ab[0]))
    q.add(f"(not (and (= {a0} 0) (= {y0} 1) (= {b0} 0)))")

    def pick_init(model):
        s_val = mval(model, shape.s)
        init = (mval(model, shape.ax[0]), mval(model, shape.ay[0]), mval(model, shape.ab[0]))
        T = (s_val - init[2] * pow(2, n, R)) % R
        T = T - R if T > HALF else T
        if abs(T) >> n:
            T = s_val
        return s_val, T, init
    run.query(f"{tag}/init", q, "unsat", "gadget-soundness",
              replay=make_replay(run, gargs, layout, shape, gen, rowsem, pats, pick_init))

    # ---- which scalar accumulators are pinned to zero by the other rows (leading-zero pin)
    mentioned = set()
    for i in shape.other:
        mentioned |= set(layout.gates[i][1])
    pinned = {}
    for k in range(n + 1):
        if shape.ab[k] not in mentioned:
            continue
        # candidate: decided by the solver (rows and acc_k != 0 unsat)
        q = xe.Query()
        encode_other(q, rowsem, layout, shape, pats)
        q.add(f"(not (= {q.var(xe.wname(shape.ab[k]))} 0))")
        r = smt.check(q.lines(), q.asserts, "z3", 30, get_model=False)
        o = fw.Obligation(f"{tag}/pin/acc{k}", "lemma/pin", q.lines(), q.asserts, "unsat", 30, None, None, False)
        o.result = r
        o.optional = True
        if r.status == "unsat":
            pinned[k] = True
            run.obls.append(o)
    run.extra.setdefault("pinned_accumulators", {})[tag] = sorted(pinned)

    # ---- chain lemmas: real bit component of every round
    B = [None] * (n + 1)
    B[0] = 0 if 0 in pinned else None
    lemmas = []
    for k, i in enumerate(shape.fixed):
        Bk = 0 if k in pinned else B[k]
        if Bk is None:
            B[k + 1] = None
            continue
        Bn = 2 * Bk + 1
        if Bn >= HALF:
            B[k + 1] = None
            continue
        B[k + 1] = Bn
        sel, w = layout.gates[i]
        nxt = layout.gates[i + 1][1]
        ctx = rowsem.ctx
        wires = {"a": ctx.var(xe.wname(w[0])), "b": ctx.var(xe.wname(w[1])), "c": ctx.var(xe.wname(w[2])),
                 "d": ctx.var(xe.wname(w[3])), "a_w": ctx.var(xe.wname(nxt[0])), "b_w": ctx.var(xe.wname(nxt[1])),
                 "d_w": ctx.var(xe.wname(nxt[3]))}
        comps = dict(rowsem.row_components(sel, wires, None))
        bitc = [c for nm, c in comps.items() if nm.startswith("fixed")
                and set(smt.variables([c])) <= {xe.wname(w[3]), xe.wname(nxt[3])}]
        if len(bitc) != 1:
            run.inconclusive.append(f"{tag}: round {k}: no single digit component in the real row")
            B[k + 1] = None
            continue
        q = xe.Query(tag=f"c{k}")
        d, dw = q.var(xe.wname(w[3])), q.var(xe.wname(nxt[3]))
        q.add(inv_s(d, Bk))
        q.add(q.zero(bitc[0], positive=True))
        concl = (f"(and {inv_s(dw, Bn)} (let ((e (- {sg(dw, Bn)} (* 2 {sg(d, Bk)})))) "
                 f"(and (<= (- 1) e) (<= e 1))))")
        q.add(f"(not {concl})")
        lemmas.append((f"round{k}", q))
    run.bound_lemmas(f"{tag}/chain", lemmas)
    Bfin = 0 if n in pinned else B[n]
    run.extra.setdefault("final_accumulator_bound_bits", {})[tag] = None if Bfin is None else Bfin.bit_length()

    # ---- closing: A_n = s as integers
    q = xe.Query()
    encode_other(q, rowsem, layout, shape, pats)
    acc, sv = q.var(xe.wname(shape.ab[n])), q.var(xe.wname(shape.s))
    q.add(inv_s(acc, Bfin))
    q.add(f"(< {sv} {RJ})")   # established by <tag>/canonical
    if Bfin is not None:
        q.add(f"(not (= {sg(acc, Bfin)} {sv}))")
    # with no bound on the final accumulator the rows cannot force the integer equality: the
    # query is then plainly satisfiable and the replay (digits of s - q) decides

    def pick_closing(model):
        s_val, a = mval(model, shape.s), mval(model, shape.ab[n])
        if Bfin is None:
            T = s_val - R if a == s_val else (a - R if a > HALF else a)
        else:
            T = a if a <= Bfin else a - R
        return s_val, T, None
    run.query(f"{tag}/closing", q, "unsat", "gadget-soundness",
              replay=make_replay(run, gargs, layout, shape, gen, rowsem, pats, pick_closing),
              meta={"bound_bits": None if Bfin is None else Bfin.bit_length()})

    # ---- telescoping of the lemma conclusions (plain LIA)
    if Bfin is not None:
        lines = [f"(declare-const A{k} Int)" for k in range(n + 1)] + [f"(declare-const e{k} Int)" for k in range(n)]
        asserts = ["(= A0 0)"]
        for k in range(n):
            asserts.append(f"(and (<= (- 1) e{k}) (<= e{k} 1) (= A{k + 1} (+ (* 2 A{k}) e{k})))")
        for k in pinned:
            asserts.append(f"(= A{k} 0)")
        total = "(+ 0 " + " ".join(f"(* {1 << (n - 1 - k)} e{k})" for k in range(n)) + ")"
        lead = [k for k in range(n) if any(p > k for p in pinned)]
        goal = [f"(= A{n} {total})"] + [f"(= e{k} 0)" for k in lead]
        asserts.append("(not (and " + " ".join(goal) + "))")
        run.obligation(f"{tag}/telescope", lines, asserts, "unsat", "lemma/telescope", get_model=False)

    # ---- honest witnesses and native comparison at boundary scalars
    rnd = random.Random(run.seed ^ 0xc14)
    pts = [("zero", 0), ("one", 1), ("two", 2), ("rj-1", RJ - 1), ("rj-2", RJ - 2), ("2^251", 1 << 251),
           ("2^251-1", (1 << 251) - 1), ("rand", rnd.randrange(RJ))]
    if run.tier == "thorough":
        pts += [(f"rand{j}", rnd.randrange(RJ)) for j in range(6)] + [("alt", int("aa" * 31, 16) % RJ)]
    for nm, s_val in pts:
        lh, _ = extract(run, gargs, env={"s": "%064x" % s_val})
        if "error" in lh.returned:
            p = _note(run, f"{tag}_{nm}", f"canonical scalar {hex(s_val)} refused: {lh.returned['error']}")
            run.violations.append((f"{tag}/honest/{nm}", p))
            continue
        honest_guard(run, f"{tag}/honest/{nm}", rowsem, lh)
        got = tuple(lh.witnesses[i] for i in lh.returned["out"])
        want = jj.mul(s_val, gen)
        run.validation["points"] += 1
        run.validation["outputs_compared"] += 2
        if got != want:
            run.validation["mismatches"] += 1
            p = _note(run, f"{tag}_{nm}", {"scalar": hex(s_val), "returned": [hex(x) for x in got],
                                          "native_sG": [hex(x) for x in want], "driver": gargs})
            run.violations.append((f"{tag}/honest-point/{nm}", p))
    # ---- the output of the last round is unique given everything else (honest values pinned):
    # a second solution is a verifying assignment that returns another point for the same scalar
    for nm, s_val in pts[:2] + pts[3:4]:
        lh, _ = extract(run, gargs, env={"s": "%064x" % s_val})
        if "error" in lh.returned:
            continue
        q = xe.Query()
        last = shape.fixed[-1]
        xe.encode_layout(q, rowsem, lh, rows=[last])
        free = {shape.ax[n], shape.ay[n]}
        for i in set(lh.gates[last][1]) | set(lh.gates[last + 1][1]):
            v = q.var(xe.wname(i))
            if i not in free:
                q.add(f"(= {v} {lh.witnesses[i]})")
        fx, fy = q.var(xe.wname(shape.ax[n])), q.var(xe.wname(shape.ay[n]))
        q.add(f"(not (and (= {fx} {lh.witnesses[shape.ax[n]]}) (= {fy} {lh.witnesses[shape.ay[n]]})))")

        def pick_none(model):
            raise ValueError("unused")

        def rp(model, lh=lh, s_val=s_val):
            full = {smt.vname(xe.wname(i)): v for i, v in enumerate(lh.witnesses)}
            full.update({k: v for k, v in model.items() if k in (smt.vname(xe.wname(shape.ax[n])),
                                                                  smt.vname(xe.wname(shape.ay[n])))})
            pt = (full[smt.vname(xe.wname(shape.ax[n]))] % R, full[smt.vname(xe.wname(shape.ay[n]))] % R)

            def violated(_m):
                want = jj.mul(s_val, gen)
                return pt != want, {"s": hex(s_val), "returned": [hex(pt[0]), hex(pt[1])],
                                    "native_sG": [hex(want[0]), hex(want[1])]}
            return gadget_replay(run, gargs, lh, violated)(full)
        run.query(f"{tag}/last-round-unique/{nm}", q, "unsat", "gadget-soundness", replay=rp)
    # non-canonical scalars are refused natively
    for nm, s_val in (("rj", RJ), ("rj+1", RJ + 1), ("2^252-1", (1 << 252) - 1), ("2^252", 1 << 252), ("q-1", R - 1)):
        lh, _ = extract(run, gargs, env={"s": "%064x" % s_val})
        if "error" not in lh.returned:
            p = _note(run, f"{tag}_{nm}", f"non-canonical scalar {hex(s_val)} accepted by component_mul_generator")
            run.violations.append((f"{tag}/refuse/{nm}", p))
    if bad and not any(v[0].startswith(f"{tag}/honest-point") for v in run.violations):
        run.inconclusive.append(f"{tag}: table rounds {bad[:8]} differ from [2^(255-k)]G but no boundary scalar "
                                "exposes it")
    return shape


def point_step(run, rowsem):
    """the real row components on symbolic table constants == cross-multiplied Edwards sum"""
    ctx = rowsem.ctx
    V = ctx.var
    xb, yb = V("xb"), V("yb")
    ax, ay, d, x3, y3 = V("ax"), V("ay"), V("d"), V("x3"), V("y3")
    D = ctx.const(EDWARDS_D)
    for e in (0, 1, -1):
        ec = ctx.const(e % R)
        m = {s: ctx.const(0) for s in SEL}
        m.update({"q_l": xb, "q_r": yb, "q_c": xb * yb, "q_fixed": ctx.const(1),
                  "a": ax, "b": ay, "c": ec * xb * yb, "d": d, "a_w": x3, "b_w": y3, "d_w": d * 2 + ec})
        comps = xe.subst(ctx, rowsem.comp["fixed"], m)
        # reference: accumulator (+) e*(xb, yb)
        xa, ya = ((ctx.const(0), ctx.const(1)) if e == 0 else (xb, yb) if e == 1 else (-xb, yb))
        t = D * ax * ay * xa * ya
        ref = {
            "digit": ec * (ec - 1) * (ec + 1),
            "xy": ctx.const(0),
            "x": x3 * (t + 1) - (ax * ya + ay * xa),
            "y": y3 * (-t + 1) - (ay * ya + ax * xa),
        }
        sp = spec_rows.fixed_components(dict(m))
        for j, nm in enumerate(("digit", "xy", "x", "y")):
            run.identity(f"step/e{e}/{nm}", comps[j], ref[nm])
            run.identity(f"step/e{e}/{nm}/spec", sp[j], ref[nm])


def _note(run, tag, what):
    import json
    import os
    d = os.path.join(fw.OUT, "cex")
    os.makedirs(d, exist_ok=True)
    p = os.path.join(d, f"C14_{tag}.json".replace("/", "_"))
    json.dump({"property": "C14", "what": what, "replayed": True}, open(p, "w"), indent=1)
    return p


def run(run):
    rowsem = load_rowsem(run)
    pats = range_patterns(run)
    used = set()
    gens = [("1", "G"), ("nums", "Gnums"), ("12345", "12345G")] if run.tier == "quick" else \
        [("1", "G"), ("nums", "Gnums"), ("2", "2G"), ("12345", "12345G"), ("18446744073709551615", "maxG")]
    if len(rowsem.comp.get("fixed", [])) == 4:
        point_step(run, rowsem)
    else:
        # fewer independent components than the four documented identities: the per-round
        # uniqueness queries below decide whether a second output point exists
        run.notes.append(f"fixed-base widget splits into {len(rowsem.comp.get('fixed', []))} components (expected 4)")
        run.extra["fixed_components"] = len(rowsem.comp.get("fixed", []))
    for gkey, tag in gens:
        check_generator(run, rowsem, pats, gkey, tag, used)
    summary_lemmas(run, rowsem, pats, used)
    run.add_functions(["Composer::component_mul_generator", "Composer::append_fixed_base_signed_digits",
                       "Composer::assert_canonical_jubjub_scalar", "Composer::range_check", "Composer::gate_add",
                       "Composer::assert_equal", "Composer::assert_equal_constant",
                       "Constraint::group_add_fixed_base", "widget::ecc::scalar_mul::fixed_base::ProverKey::"
                       "compute_quotient_i"])
    run.bounds.append(f"generators {[t for _, t in gens]} (multiples of the standard generator and the NUMS "
                      "generator); ALL field values of the scalar, of the 256 digits and of every accumulator / "
                      "product / range-check witness; honest witnesses at the listed boundary scalars")
    run.outside.append("completeness of the twisted-Edwards law on curve points (denominators non-zero) and the "
                       "group law used to sum the 256 per-round additions (cited); generators other than the "
                       "listed ones (the rows depend on the generator only through the table constants, which are "
                       "compared per generator); 'satisfiable for every canonical scalar' is decided at the honest "
                       "witness of boundary scalars, not for all scalars")
