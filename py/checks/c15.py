"""C15 -- compressed circuit descriptions compile to the identical keys (partial)."""
import framework as fw
from checks.capacity import Capacity, c15_obligations


def run(run):
    cap = Capacity(run)
    c15_obligations(run, cap)
    run.outside.append("byte equality of Prover/Verifier::to_bytes between the two routes for arbitrary circuits "
                       "(concrete pipeline through deflate/MessagePack); index validation and unpack bounds are "
                       "decided by the Kani harnesses of the thorough tier when they are built")
