"""C15 -- compressed circuit descriptions compile to the identical keys (partial).

(M) capacity: bit-vector translation of the MIR of `Compiler::max_constraints`,
    `compile_with_composer`/`trim`/`truncate` and `packed_size_limit`: the two routes
    accept exactly the same capacities, for ALL constraint counts and key lengths.
(S) identity of keys: the real compressor (`CompressedCircuit::from_composer`, scalar
    dictionary, MessagePack + deflate), decompressor (`Composer::from_bytes`) and
    compiler run on circuits whose selector values are SYMBOLIC (and, in a second
    family, every entry of the built-in scalar dictionary plus neighbours): for all
    values of those selectors the decompressed gates equal the original gates (wires
    up to renaming), and `Prover::to_bytes` / `Verifier::to_bytes` of the two routes are
    the same terms.  The dictionary is also checked to index 0..len exactly once.
"""
import json
import os

import framework as fw
import smt
from checks.capacity import Capacity, c15_obligations

FLAGS = ["dictionary_indices_are_a_permutation", "prover_identical", "verifier_identical",
         "decompressed_gates_identical", "decompressed_public_input_rows_identical",
         "decompressed_witness_count_identical"]


def routes(run, only=None, prop="C15"):
    quick = run.tier == "quick"
    shapes = []
    # (symbolic selector values, public inputs, custom gates, dictionary entries as selectors, hades dictionary)
    for k in ([1, 2, 5, 10, 11, 12, 15, 16, 17] if quick else list(range(1, 41))):
        shapes.append((6 * k, min(k, 3), 0, 0, 1))
    for pis in ([0, 14, 15, 16] if quick else list(range(0, 34))):
        shapes.append((6 * max(pis, 1), pis, 0, 0, 1))
    shapes += [(8, 2, 1, 0, 1), (8, 2, 0, 1, 1), (8, 2, 1, 1, 1), (8, 2, 0, 1, 0), (8, 2, 1, 0, 0)]
    if not quick:
        shapes += [(600, 5, 1, 1, 1), (3000, 40, 0, 0, 1)]
    if only is not None:
        shapes = list(only)
    seen, table = set(), []
    for shape in shapes:
        if shape in seen:
            continue
        seen.add(shape)
        args = ["compress_routes"] + [str(x) for x in shape]
        sb = fw.run_driver(fw.SYM_BIN, args, run.seed)
        out = sb["outputs"]
        flags = out["flags"]
        tag = f"routes/sel{shape[0]}_pi{shape[1]}_custom{shape[2]}_table{shape[3]}_hades{shape[4]}"
        table.append({"shape": shape, "constraints": out["constraints"], "compressed_bytes": out["compressed_bytes"],
                      "dictionary": out["dictionary"], "terms": out.get("nodes_in_arena")})
        extra = [k for k in flags if k not in FLAGS]
        for f in FLAGS + extra:
            v = flags.get(f)
            o = fw.Obligation(f"{tag}/{f}", "identity/term-equality", [f"; symdrv {' '.join(args)}"], [], "unsat", 0)
            o.result = smt.Result("unsat" if v is True else "sat", {}, 0.0, "", "hash-consed term identity")
            o.result.script = ""
            run.obls.append(o)
            if v is True:
                continue
            rb = fw.run_driver(fw.REAL_BIN, args, run.seed)
            rv = rb["outputs"]["flags"].get(f)
            d = os.path.join(fw.OUT, "cex")
            os.makedirs(d, exist_ok=True)
            path = os.path.join(d, f"{prop}_{tag}_{f}.json".replace("/", "_"))
            json.dump({"property": prop, "driver": args, "seed": run.seed, "flag": f, "symbolic": v, "real": rv,
                       "all_flags_real": rb["outputs"]["flags"], "detail": rb["outputs"].get("first_gate_difference"),
                       "replayed": rv is not True}, open(path, "w"), indent=1)
            if rv is not True:
                run.violations.append((f"{tag}/{f}", path))
            else:
                run.inconclusive.append(f"{tag}/{f}: terms differ but the real build agrees at the seed's values")
    run.extra["route_shapes"] = table
    run.validation["points"] += len(table)
    run.add_functions(["CompressedCircuit::from_composer", "compress::scalar_map", "CompressedCircuit::from_bytes",
                       "CompressedCircuit::unpack_bounded", "PackedCircuitReader", "CompressedCircuit::validate_indices",
                       "Composer::from_bytes", "Compiler::compile_with_compressed", "Compiler::compile_with_circuit",
                       "Prover::to_bytes", "Verifier::to_bytes"])
    run.bounds.append(f"route identity: {len(table)} circuit shapes (6..{max(s[0] for s in seen)} selector values per "
                      "circuit symbolic; vector lengths around the MessagePack 15/16 boundary; with/without custom "
                      "gates; with every dictionary entry and 16 neighbours as selector values; hades dictionary on/off)")


def run(run):
    cap = Capacity(run)
    c15_obligations(run, cap)
    routes(run)
    run.outside.append("circuits outside the listed shapes; a symbolic selector is a value distinct from every "
                       "dictionary entry (the dictionary-hit case is covered by the concrete dictionary family); "
                       "malformed compressed inputs (C17); the deflate and MessagePack libraries are executed "
                       "concretely on tagged bytes")
