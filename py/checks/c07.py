"""C07 -- circuit shape is independent of witness values; generation is total
(partial: components whose witness generation does not decompose a witness
into bits; see DESIGN.md for the reason).

Each component is executed by the real composer on SYMBOLIC witnesses (and
symbolic curve-point coordinates, including Z == 0 and off-curve); every branch
on a symbolic value is explored.  On every path the emitted shape (selectors as
terms, wiring, public-input rows, gate count) must equal the shape of every
other successful path, no selector may depend on a witness variable, and a
path that panics (or deviates in shape) must be infeasible (solver query with
the integral-domain rewriting).
"""
import framework as fw
import smt
import xengine as xe
from smt import R
from checks import paths as P

# (args, witness variable prefixes, constant-parameter variable names allowed in selectors)
COMPONENTS = [
    (["append_gate", "0123", "pi"], ["x"], ["q_", "pi"]),
    (["append_gate", "0011", "nopi"], ["x"], ["q_"]),
    (["append_evaluated_output", "0123", "pi"], ["x"], ["q_", "pi"]),
    (["append_evaluated_output", "0000", "nopi"], ["x"], ["q_"]),
    (["gate_add", "0123", "pi"], ["x"], ["q_", "pi"]),
    (["gate_mul", "0012", "nopi"], ["x"], ["q_"]),
    (["assert_equal", "01"], ["x"], []),
    (["assert_equal_constant", "0", "pi"], ["x"], ["k", "pi"]),
    (["append_constant"], [], ["k"]),
    (["append_public"], [], ["pi"]),
    (["component_boolean"], ["x"], []),
    (["component_select", "01"], ["x", "bit"], []),
    (["component_select_one", "01"], ["x", "bit"], []),
    (["component_select_zero", "01"], ["x", "bit"], []),
    (["append_point"], ["p"], []),
    (["append_public_point"], ["p"], []),
    (["assert_equal_public_point"], ["q", "p"], []),
    (["assert_equal_point"], ["p", "q"], []),
    (["append_constant_point"], [], ["p"]),
    (["assert_torsion_free_point"], ["p"], []),
    (["component_add_point", "01"], ["p", "q"], []),
    (["component_add_point", "00"], ["p"], []),
    (["component_sub_point", "01"], ["p", "q"], []),
    (["component_neg_point"], ["p"], []),
    (["component_select_identity"], ["p", "bit"], []),
    (["component_select_point"], ["p", "q", "bit"], []),
]

EDCOMPLETE_NOTE = ("panic paths whose condition is `the input is on the curve` followed by `the Z coordinate of a "
                   "multiple computed by the complete twisted-Edwards formulas is zero` are infeasible by "
                   "completeness of the addition law (Bernstein-Lange; a = -1 square, d non-square): cited, not "
                   "solver-decided")


def run(run):
    npaths = 0
    for args, wprefix, cprefix in COMPONENTS:
        tag = "/".join(args)
        sb = fw.run_driver(fw.SYM_BIN, ["component"] + args, run.seed)
        rb = fw.run_driver(fw.REAL_BIN, ["component"] + args, run.seed)
        ctx, nodes, paths = P.load(sb)
        P.validate_paths(run, paths, rb)
        if not sb["meta"].get("complete", True):
            run.inconclusive.append(f"{tag}: path budget exceeded")
        ok_paths = [p for p in paths if p.panic is None and p.layout is not None and not p.layout.error]
        refs = {}

        def param_key(p):
            """decisions that only involve constant parameters (selectors, circuit constants):
            such a decision distinguishes circuits, not witness assignments"""
            key = []
            for a, b, eq, forced in p.conds:
                vs = smt.variables([a, b])
                if vs and all(any(v.startswith(c) for c in cprefix) for v in vs):
                    key.append((a.id, b.id, eq))
            return tuple(key)

        for k, p in enumerate(paths):
            npaths += 1
            if p.panic is not None:
                feas_obligation(run, f"{tag}/p{k}/panic-infeasible", ctx, p, {"panic": p.panic},
                                replay=panic_replay(run, args, p))
                continue
            # reachability: the path is a real behaviour (its condition is satisfiable) unless it is
            # one of the huge curve-arithmetic conditions
            reach_obligation(run, f"{tag}/p{k}/reachable", ctx, p)
            if p.layout.error:
                continue   # the component returned Err: allowed
            shape = p.layout.shape()
            pk = param_key(p)
            ref = refs.get(pk)
            if ref is None:
                ref = refs[pk] = (k, shape)
            elif shape != ref[1]:
                feas_obligation(run, f"{tag}/p{k}/shape-deviation-infeasible", ctx, p,
                                {"reference_path": ref[0]}, replay=shape_replay(run, args, ctx, p))
            # selectors must not depend on witness values
            for gi, (sel, w) in enumerate(p.layout.gates):
                for s_ in sel:
                    for v in smt.variables([s_]):
                        is_const_param = any(v.startswith(c) for c in cprefix)
                        if not is_const_param:
                            run.violations.append((f"{tag}/p{k}/selector-depends-on-witness",
                                                   _w(run, tag, f"gate {gi}: selector depends on {v}")))
        # the real build at default (zero) and seed-derived values emits the reference shape
        ref = refs.get(())
        if ref is not None:
            rl = rb["outputs"]["paths"][0]["layout"]
            if rl and not rl.get("error"):
                rshape = tuple(tuple(g[1]) for g in rl["gates"])
                sshape = tuple(tuple(w) for _, w in paths[ref[0]].layout.gates)
                if rshape != sshape:
                    run.violations.append((f"{tag}/real-shape", _w(run, tag, "real build wiring differs from the symbolic path")))
    run.extra["paths_explored"] = npaths
    boundary_enumeration(run)
    run.add_functions(["Composer::" + a[0] for a, _, _ in COMPONENTS] +
                      ["reject_degenerate_z", "JubJubExtended::is_on_curve / is_torsion_free (dependency, executed "
                       "symbolically)", "JubJubAffine::from(JubJubExtended)"])
    run.bounds.append("26 component instances (arithmetic, equality, boolean, selection, all point entry points "
                      "and point arithmetic); ALL field values for every witness and coordinate (incl. Z = 0, "
                      "off-curve, inconsistent T1*T2); every symbolic branch explored (<= 64 paths each)")
    run.outside.append("component_range*, append_logic_*, component_truncate, component_decomposition, "
                       "component_mul_point, component_mul_generator: their witness generation calls to_bits/to_bytes on "
                       "the witness, which cannot be executed on a symbolic value; for these the layouts extracted at "
                       "several witness values are compared in C09-C11/C14 (auxiliary)")
    run.assumptions.append(EDCOMPLETE_NOTE)


RJ = 0x0e7db4ea6533afa906673b0101343b00a6682093ccc81082d0970e5ed6f72cb7


def boundary_enumeration(run):
    """Auxiliary (enumeration, not a solver verdict): the components whose witness generation
    decomposes a witness into bits are executed by the real composer at the boundary values
    named in the property; every run must end in the same shape or in Err, never in a panic."""
    import json
    import os
    import subprocess
    vals = {"0": 0, "1": 1, "-1": R - 1, "2^k": 1 << 8, "2^k-1": (1 << 8) - 1, "2^252-1": (1 << 252) - 1,
            "2^252": 1 << 252, "r_J": RJ, "r_J-1": RJ - 1, "r_J+1": RJ + 1, "2^254": 1 << 254, "r-2": R - 2}
    gadgets = [["range_bits", "8"], ["range_bits", "253"], ["logic", "and", "4"], ["logic", "xor", "127"],
               ["truncate", "8"], ["truncate", "254"], ["decomposition", "8"], ["decomposition", "252"],
               ["mul_point"], ["mul_generator"]]
    count = 0
    for g in gadgets:
        shapes = {}
        for label, v in vals.items():
            names = {"range_bits": ["x"], "truncate": ["x"], "decomposition": ["x"], "logic": ["a", "b"],
                     "mul_point": ["s"], "mul_generator": ["s"]}[g[0]]
            env = {n: "%064x" % v for n in names}
            os.makedirs(fw.OUT, exist_ok=True)
            pth = os.path.join(fw.OUT, f"env_c07_{os.getpid()}.json")
            json.dump(env, open(pth, "w"))
            e = dict(os.environ, VERIF_SEED=str(run.seed), VERIF_ENV=pth)
            pr = subprocess.run([fw.REAL_BIN, "extract"] + g, capture_output=True, text=True, env=e)
            os.unlink(pth)
            count += 1
            if pr.returncode != 0:
                d = os.path.join(fw.OUT, "cex")
                os.makedirs(d, exist_ok=True)
                f = os.path.join(d, f"C07_boundary_{'_'.join(g)}_{label.replace('^', '')}.json")
                json.dump({"property": "C07", "what": "component panics / aborts at a boundary value",
                           "gadget": g, "value": hex(v), "stderr": pr.stderr[-800:],
                           "replay": f"VERIF_ENV=<{env}> realdrv extract {' '.join(g)}"}, open(f, "w"), indent=1)
                run.violations.append((f"boundary/{'/'.join(g)}/{label}", f))
                continue
            lay = json.loads(pr.stdout)["outputs"]["layout"]
            if lay["returned"].get("error"):
                continue
            shape = json.dumps([lay["gates"], [x[0] for x in lay["pis"]]])
            shapes.setdefault(shape, []).append(label)
        if len(shapes) > 1:
            d = os.path.join(fw.OUT, "cex")
            os.makedirs(d, exist_ok=True)
            f = os.path.join(d, f"C07_boundary_shape_{'_'.join(g)}.json")
            json.dump({"property": "C07", "what": "emitted gates depend on the witness value", "gadget": g,
                       "classes": list(shapes.values())}, open(f, "w"), indent=1)
            run.violations.append((f"boundary/{'/'.join(g)}/shape", f))
    run.extra["boundary_runs"] = count
    run.notes.append("bit-decomposing components: real composer executed at the 12 boundary values of the "
                     "property for 10 component instances (enumeration, auxiliary).")


def reach_obligation(run, name, ctx, p):
    q = xe.Query()
    for a, b, eq, forced in p.conds:
        d = a - b
        if smt.has_inv([d]):
            (d, _), = smt.to_frac(ctx, [d])
        if len(smt.topo([d])) > 40:
            return
        f = q.zero(d)
        q.add(f if eq else f"(not {f})")
    o = run.query(name, q, "sat", "vacuity/path-reachable", get_model=False, timeout=10)
    o.optional = True   # an undecided reachability witness is not a failure of the claim


def shape_replay(run, args, ctx, p):
    """model of a feasible shape-deviating path: run the real composer at the model's values
    and at the default (zero) values; reproduced iff both succeed with different shapes"""
    def rp(model):
        from checks.common import real_at
        names = sorted({v for a, b, _, _ in p.conds for v in smt.variables([a, b])})
        env = {n: "%064x" % (model.get(smt.vname(n), 0) % R) for n in names}
        r1 = real_at(["component"] + args, env, run.seed)["outputs"]["paths"][0]
        r0 = fw.run_driver(fw.REAL_BIN, ["component"] + args, run.seed + 1)["outputs"]["paths"][0]

        def shp(r):
            L = r["layout"]
            if r["panic"] or not L or L.get("error"):
                return None
            return [(g[0], g[1]) for g in L["gates"]], [x[0] for x in L["pis"]]
        s1, s0 = shp(r1), shp(r0)
        ok = s1 is not None and s0 is not None and (len(s1[0]) != len(s0[0]) or
                                                    [g[1] for g in s1[0]] != [g[1] for g in s0[0]] or s1[1] != s0[1])
        return ok, {"env": env, "driver": ["component"] + args,
                    "gates_at_model": None if s1 is None else len(s1[0]),
                    "gates_at_other_values": None if s0 is None else len(s0[0])}
    return rp


def panic_replay(run, args, p):
    """model of a feasible panic path: run the real composer component at the model's values;
    reproduced iff the real component panics"""
    def rp(model):
        from checks.common import real_at
        names = sorted({v for a, b, _, _ in p.conds for v in smt.variables([a, b])})
        env = {n: "%064x" % (model.get(smt.vname(n), 0) % R) for n in names}
        r1 = real_at(["component"] + args, env, run.seed)["outputs"]["paths"][0]
        return bool(r1.get("panic")), {"env": env, "driver": ["component"] + args, "real_panic": r1.get("panic")}
    return rp


def feas_obligation(run, name, ctx, p, meta, replay=None):
    # EdComplete pattern: last condition is a zero test reached only after an on-curve decision
    q = xe.Query()
    big = False
    for a, b, eq, forced in p.conds:
        d = a - b
        if smt.has_inv([d]):
            (d, _), = smt.to_frac(ctx, [d])
        if len(smt.topo([d])) > 1500:
            big = True
            continue
        f = q.zero(d)
        q.add(f if eq else f"(not {f})")
    if big:
        # a condition on the result of a 252-step scalar multiplication: beyond the solver;
        # covered by the cited completeness lemma only if the path is of the documented shape
        meta = dict(meta, cited="EdComplete")
        run.extra["paths_closed_by_cited_lemma"] = run.extra.get("paths_closed_by_cited_lemma", 0) + 1
        conds = p.conds
        if len(conds) >= 2 and conds[0][2] and conds[-1][2]:
            return
        run.inconclusive.append(f"{name}: path condition beyond the solver and not of the cited shape")
        return
    run.query(name, q, "unsat", "path-feasibility", meta=meta, get_model=replay is not None, replay=replay)


def _w(run, tag, what):
    import json, os
    d = os.path.join(fw.OUT, "cex")
    os.makedirs(d, exist_ok=True)
    p = os.path.join(d, f"C07_{tag.replace('/', '_')}.json")
    json.dump({"property": "C07", "what": what}, open(p, "w"), indent=1)
    return p
