"""C09 -- range check admits exactly [0, 2^BITS)."""
import random

import framework as fw
import smt
import xengine as xe
from smt import R
from checks.gadget_common import load_rowsem, extract, honest_guard

QUICK = [0, 1, 2, 3, 6, 7, 8, 9, 15, 16, 63, 64, 65, 126, 127, 128, 129, 251, 252, 253, 254, 255, 256]


def widths(run):
    if run.tier == "thorough":
        return list(range(257))
    rnd = random.Random(run.seed)
    return sorted(set(QUICK + [rnd.randrange(10, 250) for _ in range(3)]))


def replay_factory(run, w, layout):
    """A soundness model: witness assignment satisfying every row with
    x >= 2^w.  Replay: plug the model into the real composer and run the real
    prover + verifier (driver `replay_gadget`)."""
    def rp(model):
        from checks.common import real_at
        env = {}
        for i in range(len(layout.witnesses)):
            v = model.get(smt.vname(xe.wname(i)))
            if v is not None:
                env[f"w{i}"] = "%064x" % (v % R)
        rb = real_at(["prove_gadget", "range_bits", str(w)], env, run.seed)
        o = rb["outputs"]
        x = model.get(smt.vname(xe.wname(layout.inputs["x"])), 0) % R
        ok = bool(o.get("verified")) and x >= (1 << w)
        return ok, {"x": hex(x), "width": w, "prover": o, "env": env}
    return rp


def run(run):
    rowsem = load_rowsem(run)
    run.add_functions(["Composer::component_range_bits::<W>", "Composer::component_range::<W/2>",
                       "Composer::range_check", "Composer::range_check_even", "Composer::initialized",
                       "Composer::component_boolean", "Composer::gate_add", "Composer::assert_equal"])
    ws = widths(run)
    shapes_equal = 0
    for w in ws:
        layout, _ = extract(run, ["range_bits", w])
        x = smt.vname(xe.wname(layout.inputs["x"]))
        if w <= 254:
            bounds, lem = xe.propagate_bounds(rowsem, layout)
            run.bound_lemmas(f"range/w{w}", lem)
            q = xe.Query()
            xe.apply_bounds(q, bounds)
            xe.encode_layout(q, rowsem, layout)
            q.var(xe.wname(layout.inputs["x"]))
            q.add(f"(>= {x} {1 << w})")
            run.query(f"range/sound/w{w}", q, "unsat", "gadget-soundness",
                           replay=replay_factory(run, w, layout),
                           meta={"width": w, "rows": len(layout.gates)})
            # reachability twin: the honest witness at x = 2^w-1 satisfies the rows
            lh, _ = extract(run, ["range_bits", w], env={"x": "%064x" % ((1 << w) - 1)})
            honest_guard(run, f"range/reach/w{w}", rowsem, lh)
        else:
            # documented: constrains nothing -- the honest witness at x = r-1 satisfies the rows
            lh, _ = extract(run, ["range_bits", w], env={"x": "%064x" % (R - 1)})
            honest_guard(run, f"range/unconstrained/w{w}", rowsem, lh)
        if w % 2 == 0:
            l2, _ = extract(run, ["range_pairs", w // 2])
            if l2.shape() != layout.shape():
                run.violations.append((f"range/entrypoints/w{w}", _write_shape_cex(run, w, layout, l2)))
            else:
                shapes_equal += 1
    run.extra["entry_point_pairs_compared"] = shapes_equal
    run.bounds.append(f"widths {ws} (thorough: every 0..=256); ALL field values of the witness and of every "
                      "internal accumulator")
    run.outside.append("satisfiability direction is decided for widths via the reachability twin at x=2^w-1 only; "
                       "the Skolem (all x<2^w) direction is in the thorough tier")


def _write_shape_cex(run, w, a, b):
    import json, os
    p = os.path.join(fw.OUT, "cex", f"C09_entrypoints_w{w}.json")
    os.makedirs(os.path.dirname(p), exist_ok=True)
    json.dump({"property": "C09", "width": w, "bits_gates": len(a.gates), "pairs_gates": len(b.gates)},
              open(p, "w"))
    return p
