"""C09 -- range check admits exactly [0, 2^BITS)."""
import random

import framework as fw
import smt
import xengine as xe
from smt import R
from checks.gadget_common import load_rowsem, extract, honest_guard

QUICK = [0, 1, 2, 3, 6, 7, 8, 9, 15, 16, 63, 64, 65, 126, 127, 128, 129, 251, 252, 253, 254, 255, 256]


def widths(run):
    if run.tier == "thorough":
        return list(range(257))
    rnd = random.Random(run.seed)
    return sorted(set(QUICK + [rnd.randrange(10, 250) for _ in range(3)]))


def replay_factory(run, w, layout):
    """A soundness model: witness assignment satisfying every row with
    x >= 2^w.  Replay: plug the model into the real composer and run the real
    prover + verifier (driver `replay_gadget`)."""
    def rp(model):
        from checks.common import real_at
        env = {}
        for i in range(len(layout.witnesses)):
            v = model.get(smt.vname(xe.wname(i)))
            if v is not None:
                env[f"w{i}"] = "%064x" % (v % R)
        rb = real_at(["prove_gadget", "range_bits", str(w)], env, run.seed)
        o = rb["outputs"]
        x = model.get(smt.vname(xe.wname(layout.inputs["x"])), 0) % R
        ok = bool(o.get("verified")) and x >= (1 << w)
        return ok, {"x": hex(x), "width": w, "prover": o, "env": env}
    return rp


def delta(x):
    return x * (x - 1) * (x - 2) * (x - 3) % R


def cancelling_pair():
    """(u, v), both outside {0,1,2,3}, with delta(u) + delta(v) = 0 in F_r (two square roots:
    delta(t + 3/2) is biquadratic in t)"""
    inv2, inv16 = pow(2, R - 2, R), pow(16, R - 2, R)
    for u in range(4, 400):
        k = delta(u)
        # s^2 - (5/2) s + (9/16 + k) = 0,  s = t^2,  v = t + 3/2
        disc = (25 * pow(4, R - 2, R) - 4 * (9 * inv16 + k)) % R
        sq = xe.sqrt_mod(disc)
        if sq is None:
            continue
        for sg in (sq, R - sq):
            s_ = (5 * inv2 + sg) * inv2 % R
            t = xe.sqrt_mod(s_)
            if t is None:
                continue
            v = (t + 3 * inv2) % R
            if v > 3 and (delta(u) + delta(v)) % R == 0:
                return u, v
    return None


def merged_component_forgery(run, rowsem, w):
    """The range widget splits into fewer than four independent quad identities: two quads of one
    row are only constrained through the SUM of their delta polynomials.  Build an assignment that
    exploits it (honest chain for x = 0, one row gets a cancelling non-quad pair, the rest of the
    chain is recomputed) and let the solver confirm it satisfies every row before the replay."""
    pair = cancelling_pair()
    if pair is None:
        return
    layout, _ = extract(run, ["range_bits", w], env={"x": "%064x" % 0})
    qr = xe.SEL.index("q_range")
    rows = [i for i, (sel, _) in enumerate(layout.gates) if sel[qr] % R]
    if not rows:
        return
    u, v = pair
    names = ["d", "c", "b", "a", "d_w"]
    for (pu, pv) in ((2, 3), (3, 4), (1, 2), (1, 3), (2, 4), (1, 4)):   # which two chain steps get (u, v)
        vals = {i: x for i, x in enumerate(layout.witnesses)}
        r0 = rows[0]
        started = False
        pinned = set()
        for i in rows:
            wd, nxt = layout.gates[i][1], layout.gates[i + 1][1]
            chain = [wd[3], wd[2], wd[1], wd[0], nxt[3]]
            pinned |= set(chain)
            for step in range(1, 5):
                digit = 0
                if i == r0 and step == pu:
                    digit, started = u, True
                elif i == r0 and step == pv:
                    digit = v
                if started or i != r0:
                    vals[chain[step]] = (4 * vals[chain[step - 1]] + digit) % R
        # the accumulator chain is pinned; everything else (the value x tied to the last accumulator,
        # helper witnesses) is completed by the solver
        q = xe.Query()
        xe.encode_layout(q, rowsem, layout)
        for i in pinned | {0, 1}:
            nm = smt.vname(xe.wname(i))
            if nm in q.vars:
                q.add(f"(= {nm} {vals[i]})")
        r = smt.check(q.lines(), q.asserts, "z3", 30, get_model=True)
        if r.status != "sat":
            continue
        model = {smt.vname(xe.wname(i)): x for i, x in vals.items()}
        model.update(r.model)
        xval = model.get(smt.vname(xe.wname(layout.inputs["x"])), 0) % R
        ok, det = replay_factory(run, w, layout)(model)
        import json
        import os
        d = os.path.join(fw.OUT, "cex")
        os.makedirs(d, exist_ok=True)
        path = os.path.join(d, f"C09_merged_components_w{w}.json")
        json.dump({"property": "C09", "what": "two quad identities are enforced only through their sum",
                   "cancelling_pair": [hex(u), hex(v)], "steps": [names[pu], names[pv]], "x": hex(xval),
                   "replay_detail": det, "replayed": ok}, open(path, "w"), indent=1)
        if ok:
            run.violations.append((f"range/merged-components/w{w}", path))
            return
    run.notes.append("the range widget has fewer than four components but no cancelling-pair forgery verified")


def run(run):
    rowsem = load_rowsem(run)
    if len(rowsem.comp.get("range", [])) < 4:
        merged_component_forgery(run, rowsem, 16)
    run.add_functions(["Composer::component_range_bits::<W>", "Composer::component_range::<W/2>",
                       "Composer::range_check", "Composer::range_check_even", "Composer::initialized",
                       "Composer::component_boolean", "Composer::gate_add", "Composer::assert_equal"])
    ws = widths(run)
    shapes_equal = 0
    for w in ws:
        layout, _ = extract(run, ["range_bits", w])
        x = smt.vname(xe.wname(layout.inputs["x"]))
        if w <= 254:
            bounds, lem = xe.propagate_bounds(rowsem, layout)
            run.bound_lemmas(f"range/w{w}", lem)
            q = xe.Query()
            xe.apply_bounds(q, bounds)
            xe.encode_layout(q, rowsem, layout)
            q.var(xe.wname(layout.inputs["x"]))
            q.add(f"(>= {x} {1 << w})")
            run.query(f"range/sound/w{w}", q, "unsat", "gadget-soundness",
                           replay=replay_factory(run, w, layout),
                           meta={"width": w, "rows": len(layout.gates)})
            # reachability twin: the honest witness at x = 2^w-1 satisfies the rows
            lh, _ = extract(run, ["range_bits", w], env={"x": "%064x" % ((1 << w) - 1)})
            honest_guard(run, f"range/reach/w{w}", rowsem, lh)
        else:
            # documented: constrains nothing -- the honest witness at x = r-1 satisfies the rows
            lh, _ = extract(run, ["range_bits", w], env={"x": "%064x" % (R - 1)})
            honest_guard(run, f"range/unconstrained/w{w}", rowsem, lh)
        if w % 2 == 0:
            l2, _ = extract(run, ["range_pairs", w // 2])
            if l2.shape() != layout.shape():
                run.violations.append((f"range/entrypoints/w{w}", _write_shape_cex(run, w, layout, l2)))
            else:
                shapes_equal += 1
    run.extra["entry_point_pairs_compared"] = shapes_equal
    run.bounds.append(f"widths {ws} (thorough: every 0..=256); ALL field values of the witness and of every "
                      "internal accumulator")
    run.outside.append("satisfiability direction is decided for widths via the reachability twin at x=2^w-1 only; "
                       "the Skolem (all x<2^w) direction is in the thorough tier")


def _write_shape_cex(run, w, a, b):
    import json, os
    p = os.path.join(fw.OUT, "cex", f"C09_entrypoints_w{w}.json")
    os.makedirs(os.path.dirname(p), exist_ok=True)
    json.dump({"property": "C09", "width": w, "bits_gates": len(a.gates), "pairs_gates": len(b.gates)},
              open(p, "w"))
    return p
