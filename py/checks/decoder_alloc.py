"""Allocation bounds of the compressed-circuit decoder (engine M).

`CompressedCircuit::from_bytes` / `unpack_bounded` / `PackedCircuitReader::unpack_vec`
are executed symbolically from their MIR.  Every integer read from the input (array
lengths, the `witnesses` header field, indices) is a fresh 64-bit value, the capacity
`max_constraints` is a free 64-bit value, inflate / MessagePack element decoders are
opaque (Ok(arbitrary) | Err, inflate's output length <= its limit argument).  At every
call that sizes an allocation from a value (`with_capacity`, `vec![x; n]`, `collect` of
a counted range, the inflate limit) the obligation is: for ALL such values on ALL paths
that reach the call, the requested element count is at most
`packed_size_limit(max_constraints)` + 4096 (= 857*m + 30 + the constant dictionary bound) -- "a small multiple of the
parameters' capacity".  A satisfiable obligation is replayed on the REAL decoder with a
crafted payload under a counting allocator.

Loops are executed for zero and one iteration from the loop-entry state (a back edge
ends the path); amortised growth inside a loop (`push`, map insertion: one element per
iteration, iterations <= the length of a bounded container) is outside this engine.
"""
import os
import re
import struct
import zlib

import framework as fw
import mir
import mirdump
from checks.decoder_lengths import AnyFields


def anyobj(I, name):
    o = mir.Obj(name)
    o.fields = AnyFields(I)
    return o


def intrinsics(sites, unknown):
    def site(kind, size, pc):
        sites.append((kind, size, list(pc)))

    def inflate(I, args, pc, fname=None):
        data, limit = args
        site("inflate::decompress_to_vec_with_limit(limit)", limit, pc)
        ln = I.fresh(64, "inflated")
        return [(mir.Enum("Result", "Ok", mir.Obj("Vec", {"len": ln})), [f"(bvule {ln.s} {limit.s})"]),
                (mir.Enum("Result", "Err", mir.Obj("DecompressError")), [])]

    def map_err(I, args, pc, fname=None):
        v = args[0]
        if v.variant == "Ok":
            return [(v, [])]
        return [(mir.Enum("Result", "Err", mir.Obj("err")), [])]

    def ident(I, args, pc, fname=None):
        return [(args[0], [])]

    def opaque_result(name, field_obj=False):
        def f(I, args, pc, fname=None):
            ok = anyobj(I, name) if field_obj else I.fresh(64, name)
            return [(mir.Enum("Result", "Ok", ok), []), (mir.Enum("Result", "Err", mir.Obj("err")), [])]
        return f

    def opaque_option(name):
        def f(I, args, pc, fname=None):
            return [(mir.Enum("Option", "Some", anyobj(I, name)), []), (mir.Enum("Option", "None"), [])]
        return f

    def range_map(I, args, pc, fname=None):
        r = args[0]
        return [(mir.Obj("MapRange", {"start": r.fields["start"], "end": r.fields["end"]}), [])]

    def collect(I, args, pc, fname=None):
        it = args[0]
        s, e = it.fields["start"], it.fields["end"]
        n = mir.BV(64, f"(ite (bvult {e.s} {s.s}) (_ bv0 64) (bvsub {e.s} {s.s}))")
        site("collect of a counted range (elements <= range length)", n, pc)
        return [(mir.Enum("Result", "Ok", mir.Obj("Vec", {"len": n})), []),
                (mir.Enum("Result", "Err", mir.Obj("err")), [])]

    def is_empty(I, args, pc, fname=None):
        b = I.fresh(1, "empty")
        return [(mir.B(f"(= {b.s} #b1)"), [])]

    def scalar_map(I, args, pc, fname=None):
        # built-in dictionary: a constant-size table (its size is a compile-time constant of the crate)
        ln = I.fresh(64, "dictionary")
        return [(mir.Obj("HashMap", {"len": ln}), [f"(bvule {ln.s} (_ bv4096 64))"])]

    def unit_result(I, args, pc, fname=None):
        return [(mir.Enum("Result", "Ok", ()), []), (mir.Enum("Result", "Err", mir.Obj("err")), [])]

    def from_elem(I, args, pc, fname=None):
        site("vec![x; n]", args[1], pc)
        return [(mir.Obj("Vec", {"len": args[1]}), [])]

    def with_capacity(I, args, pc, fname=None):
        site(re.sub(r"::<[^>]*>", "", fname or "with_capacity"), args[0], pc)
        return [(mir.Obj("Container", {"len": mir.bvconst(64, 0)}), [])]

    def reserve(I, args, pc, fname=None):
        site(re.sub(r"::<[^>]*>", "", fname or "reserve"), args[-1], pc)
        return [((), [])]

    def into_iter(I, args, pc, fname=None):
        v = args[0]
        return [(mir.Obj("Iter", {"len": v.fields.get("len")}), [])]

    def next_(I, args, pc, fname=None):
        if "Enumerate" in (fname or ""):
            item = (I.fresh(64, "i"), anyobj(I, "item"))
        else:
            item = anyobj(I, "item")
        return [(mir.Enum("Option", "Some", item), []), (mir.Enum("Option", "None"), [])]

    def sat_mul(I, args, pc, fname=None):
        a, b = args
        ext = f"(bvmul ((_ zero_extend 64) {a.s}) ((_ zero_extend 64) {b.s}))"
        ovf = f"(not (= ((_ extract 127 64) {ext}) (_ bv0 64)))"
        return [(mir.BV(64, f"(ite {ovf} #xffffffffffffffff (bvmul {a.s} {b.s}))"), [])]

    def sat_add(I, args, pc, fname=None):
        a, b = args
        s = f"(bvadd {a.s} {b.s})"
        return [(mir.BV(64, f"(ite (bvult {s} {a.s}) #xffffffffffffffff {s})"), [])]

    def minmax(which):
        def f(I, args, pc, fname=None):
            a, b = args
            c = "bvult" if which == "min" else "bvugt"
            return [(mir.BV(64, f"(ite ({c} {a.s} {b.s}) {a.s} {b.s})"), [])]
        return f

    def opaque(I, args, pc, fname=None):
        unknown.add(re.sub(r"::<[^>]*>", "", fname or "?")[:90])
        return [(anyobj(I, "opaque"), [])]

    def get(I, args, pc, fname=None):
        return [(mir.Enum("Option", "Some", anyobj(I, "elem")), []), (mir.Enum("Option", "None"), [])]

    tbl = {
        "re:decompress_to_vec_with_limit$": inflate,
        "re:^Result::<.*>::map_err::": map_err,
        "re: as Deref>::deref$": ident,
        "re:PackedCircuitReader::<'_>::unpack::<": opaque_result("header"),
        "re:PackedCircuitReader::<'_>::unpack_array_len$": opaque_result("arraylen"),
        "re:PackedCircuitReader::<'_>::is_empty$": is_empty,
        "re:<&usize as PartialEq>::eq$": is_empty,
        "re:PackedCircuitReader::<'_>::new$": lambda I, a, pc, fname=None: [(mir.Obj("reader", {"remaining": a[0]}), [])],
        "re:<std::ops::Range<usize> as Iterator>::map::": range_map,
        "re:<std::iter::Map<std::ops::Range<usize>.* as Iterator>::collect::": collect,
        "re:^scalar_map$": scalar_map,
        "re:CompressedCircuit::validate_indices$": unit_result,
        "re:^std::vec::from_elem::": from_elem,
        "re:::with_capacity(_and_hasher|_in)?$": with_capacity,
        "re:::(reserve|reserve_exact|try_reserve)$": reserve,
        "re: as IntoIterator>::into_iter$": into_iter,
        "re: as Iterator>::enumerate$": ident,
        "re: as Iterator>::next$": next_,
        "re: as Iterator>::for_each::": lambda I, a, pc, fname=None: [((), [])],
        "re:Fq::from_bytes$": lambda I, a, pc, fname=None: [(anyobj(I, "ctoption"), [])],
        "re:CtOption<Fq> as Into<Option<Fq>>>::into$": opaque_option("scalar"),
        "re:::saturating_mul$": sat_mul,
        "re:::saturating_add$": sat_add,
        "re:::min$": minmax("min"),
        "re:::max$": minmax("max"),
        "re:core::slice::<impl \\[.*\\]>::get::<usize>$": get,
        "re:^Option::<.*>::copied$": ident,
        "re:^(Vec::<.*>::push|Fq::zero|Composer::uninitialized|CompressedCircuit::remap_witness|Constraint::\\w+|"
        "<Constraint as (std::default::)?Default>::default|Option::<&usize>::\\w+|<usize as PartialEq>::eq|Composer::append_custom_gate|.*::append_custom_gate_internal)(::<.*>)?$": opaque,
    }
    return tbl


class LoopCutInterp(mir.Interp):
    """a block entered a second time on the same path ends that path (loops: zero or one iteration)"""

    def place_get(self, env, p):
        """projection parser with balanced parentheses (nested tuple / downcast places)"""
        p = p.strip()
        if re.match(r"^_\d+$", p):
            return env[p]
        if p.startswith("(*") and p.endswith(")"):
            return self.place_get(env, p[2:-1])
        if p.startswith("(") and p.endswith(")"):
            inner = p[1:-1]
            depth, cut = 0, None
            for i, ch in enumerate(inner):
                if ch in "(<[":
                    depth += 1
                elif ch in ")>]":
                    depth -= 1
                elif depth == 0:
                    m = re.match(r"\.(\d+): ", inner[i:])
                    if m:
                        cut = (i, int(m.group(1)))
                        break
                    m = re.match(r" as (\w+)$", inner[i:])
                    if m:
                        v = self.place_get(env, inner[:i])
                        if not isinstance(v, mir.Enum) or v.variant != m.group(1):
                            raise ValueError(f"downcast {p} on {v}")
                        return ("payload", v.payload, v.variant)
            if cut:
                v = self.place_get(env, inner[:cut[0]])
                idx = cut[1]
                if isinstance(v, tuple) and v and v[0] == "payload":
                    pl = v[1]
                    single = v[2] in ("Some", "Ok", "Err", "Continue", "Break")
                    return pl[idx] if isinstance(pl, tuple) and not single else pl
                if isinstance(v, tuple):
                    return v[idx]
                if isinstance(v, mir.Obj):
                    return v.fields.get(idx, mir.Obj("opaque-field"))
                raise ValueError(f"field {idx} of {v}")
        return super().place_get(env, p)

    def run(self, fname, args):
        name = self.mir.find(fname) if fname not in self.mir.fns else fname
        blocks = self.mir.blocks(name)
        params = self.mir.params(name)
        env0 = {p[0]: a for p, a in zip(params, args)}
        out, self.cuts = [], getattr(self, "cuts", 0)
        stack = [(0, env0, [], frozenset())]
        while stack:
            if len(out) > self.max_paths:
                raise RuntimeError("path budget")
            bb, env, pc, seen = stack.pop()
            if bb in seen:
                self.cuts += 1
                continue
            seen = seen | {bb}
            env = dict(env)
            try:
                nxt = self.exec_block(blocks[bb], env, pc)
            except mir.Panic as e:
                out.append((pc, e))
                continue
            for (kind, a, b, c) in nxt:
                if kind == "ret":
                    out.append((a, env.get("_0", ()) if b is None else b))
                elif kind == "panic":
                    out.append((a, mir.Panic(b)))
                else:
                    stack.append((a, b, c, seen))
        return out


def payload(witnesses, n_constraints=1):
    """a well-formed packed circuit (one default polynomial, n default constraints on label 0) whose
    declared witness count is `witnesses`; raw deflate as miniz_oxide::deflate::compress_to_vec"""
    def uint(v):
        if v < 0x80:
            return bytes([v])
        if v < 1 << 8:
            return b"\xcc" + bytes([v])
        if v < 1 << 16:
            return b"\xcd" + struct.pack(">H", v)
        if v < 1 << 32:
            return b"\xce" + struct.pack(">I", v)
        return b"\xcf" + struct.pack(">Q", v)

    def arr(items):
        n = len(items)
        hdr = bytes([0x90 | n]) if n < 16 else b"\xdc" + struct.pack(">H", n)
        return hdr + b"".join(items)
    packed = b"\xc2" + arr([uint(0)]) + uint(witnesses) + arr([]) + arr([b"\x00" * 11]) + \
        arr([b"\x00" * 5] * n_constraints)
    c = zlib.compressobj(9, zlib.DEFLATED, -15)
    return c.compress(packed) + c.flush()


def replay_factory(run, decls, pc, size, kind, neg="true"):
    def rp(model):
        import subprocess
        hdrs = sorted({m for l in decls for m in re.findall(r"declare-const (header_\d+) ", l)}, key=lambda x: int(x[7:]))
        # ask for a model with a small capacity (the real decoder is run with that capacity)
        script = ["(set-logic QF_BV)"] + [l for l in decls if not l.startswith(";")] + [f"(assert {a})" for a in pc] + \
                 [f"(assert {neg})", "(assert (bvule m (_ bv64 64)))", "(check-sat)", "(get-value (m " + " ".join(hdrs) + "))",
                  f"(get-value ({size.s}))"]
        p = None
        for extra in (f"(assert (bvugt {size.s} (_ bv{1 << 40} 64)))", "(assert true)"):
            # prefer a model far beyond the bound (an unmistakable request), else any model
            p = subprocess.run(["z3-new", "-in", "-T:60"], input="\n".join(script[:-3] + [extra] + script[-3:]),
                               capture_output=True, text=True)
            if p.stdout.startswith("sat"):
                break
        if not p.stdout.startswith("sat"):
            return False, {"small-model": p.stdout[:200]}
        vals = {k: int(v, 16) for k, v in re.findall(r"\((\w+) #x([0-9a-f]+)\)", p.stdout)}
        m = max(2, vals.get("m", 2))
        big = [vals[h] for h in hdrs if h in vals]
        w = max(big) if big else (1 << 62)
        data = payload(w)
        env = dict(os.environ, VERIF_SEED=str(run.seed), RAYON_NUM_THREADS="1")
        q = subprocess.run([fw.REAL_BIN, "decode_alloc", data.hex(), str(m)], capture_output=True, text=True, env=env)
        limit_elems = 857 * m + 30 + 4096
        req = re.search(r"ALLOC_REQUEST (\d+)", q.stderr or "")
        if q.returncode == 0:
            import json
            o = json.loads(q.stdout)["outputs"]
            outcome, peak = o["outcome"], o["peak_request_bytes"]
        else:
            outcome, peak = ("ABORT(allocation request above 1 GiB)" if req else f"CRASH rc={q.returncode}"), \
                (int(req.group(1)) if req else 0)
        # 128 bytes per element exceeds every element type the decoder allocates; a panic (capacity overflow),
        # or a single request beyond that many bytes, reproduces the finding
        reproduced = outcome == "PANIC" or peak > 128 * limit_elems
        return reproduced, {"site": kind, "capacity": m, "declared_witnesses": hex(w), "payload_hex": data.hex(),
                            "real_outcome": outcome, "largest_single_request_bytes": peak,
                            "bound_bytes": 128 * limit_elems}
    return rp


def obligations(run):
    text = mirdump.dump()
    M = mir.Mir(text, mirdump.source_consts())
    cands = [n for n in M.fns if n.startswith("compress::<impl") and n.endswith(">::from_bytes")]
    if len(cands) != 1:
        run.inconclusive.append("alloc/CompressedCircuit::from_bytes: function not found in the MIR dump")
        return
    sites, unknown = [], set()
    I = LoopCutInterp(M, intrinsics(sites, unknown), max_paths=20000)
    m = mir.BV(64, "m")
    try:
        paths = I.run(cands[0], [mir.Obj("slice", {"len": mir.BV(64, "len")}), m])
    except Exception as e:  # an unmodelled construct: never a pass
        run.inconclusive.append(f"alloc/CompressedCircuit::from_bytes: MIR construct not modelled ({type(e).__name__}: {e})")
        return
    decls = ["; QF_BV", "(declare-const len (_ BitVec 64))", "(declare-const m (_ BitVec 64))"] + list(I.decls)
    k1 = M.consts["PACKED_BYTES_PER_CONSTRAINT"][1]
    k2 = M.consts["PACKED_FIXED_BYTES"][1]
    # + 4096: the built-in scalar dictionary (a constant of the crate, independent of the input)
    bound = f"(bvadd (bvmul (_ bv{k1} 128) ((_ zero_extend 64) m)) (_ bv{k2 + 4096} 128))"
    seen = set()
    n = 0
    for kind, size, pc in sites:
        if not isinstance(size, mir.BV):
            run.inconclusive.append(f"alloc/{kind}: size operand is not an integer term ({size})")
            continue
        key = (kind, size.s, tuple(pc))
        if key in seen:
            continue
        seen.add(key)
        n += 1
        neg = f"(bvugt ((_ zero_extend 64) {size.s}) {bound})"
        run.obligation(f"alloc/from_bytes/site{n}/{kind}: elements <= {k1}*m+{k2}+4096", decls, list(pc) + [neg], "unsat",
                       "allocation-bound", get_model=True, replay=replay_factory(run, decls, list(pc), size, kind, neg))
    oks = [pc for pc, out in paths if isinstance(out, mir.Enum) and out.variant == "Ok"]
    kinds = sorted({k for k, _, _ in sites})
    if not oks:
        run.inconclusive.append("alloc/from_bytes: no successful path explored")
    else:
        disj = "(or " + " ".join("(and true " + " ".join(pc) + ")" for pc in oks[:50]) + ")"
        run.obligation("alloc/from_bytes/reach-ok", decls, [disj], "sat", "vacuity", get_model=False)
    need = ("with_capacity", "vec![x; n]", "collect", "inflate")
    for k in need:
        if not any(k in s for s in kinds):
            run.inconclusive.append(f"alloc/from_bytes: expected allocation site '{k}' was not reached")
    run.extra["alloc_sites"] = {"sites": kinds, "obligations": n, "paths": len(paths), "loop_back_edges_cut": I.cuts,
                                "opaque_calls": sorted(unknown)}
    run.add_functions(["CompressedCircuit::from_bytes (MIR)", "CompressedCircuit::unpack_bounded (MIR)",
                       "PackedCircuitReader::unpack_vec (MIR)"])
    run.bounds.append("engine M (allocation): ALL 64-bit capacities m, ALL values of the integers read from the input; "
                      "loops explored for 0 and 1 iteration from the loop-entry state")
    run.outside.append("allocation inside inflate / MessagePack element decoders and amortised container growth inside "
                       "loops (one element per iteration); Composer::uninitialized / append_custom_gate internals; the "
                       "built-in scalar dictionary is assumed to have <= 4096 entries")
