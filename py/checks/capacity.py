"""Capacity / degree arithmetic (engine M): bit-vector translation of the MIR of
`Compiler::compile_with_composer` (with `PublicParameters::trim`,
`CommitKey::truncate`, `max_degree` inlined), `Compiler::max_constraints` and
`CompressedCircuit::packed_size_limit`, for ALL 64-bit values inside the stated
precondition."""
import subprocess

import framework as fw
import mir
import mirdump
import smt

PRE_BITS = 40   # constraint count and key length below 2^40 (far above any allocatable circuit)


def bv_check(decls, asserts, timeout=60):
    script = ["(set-logic QF_BV)", f"(set-option :timeout {timeout * 1000})"] + decls + \
             [f"(assert {a})" for a in asserts] + ["(check-sat)", "(get-model)"]
    return script


def npot(x, w=64):
    t = f"(_ bv0 {w})"
    for k in range(w - 1, -1, -1):
        t = f"(ite (bvule {x} (_ bv{1 << k} {w})) (_ bv{1 << k} {w}) {t})"
    return t


class Capacity:
    def __init__(self, run):
        text = mirdump.dump()
        self.consts = mirdump.source_consts()
        self.M = mir.Mir(text, self.consts)
        self.captured = []

        def preprocess(interp, args, pc):
            self.captured.append(args)
            return [(mir.Enum("Result", "Ok", mir.Obj("compiled", {0: args[1]})), [])]

        self.intr = {"Compiler::preprocess": preprocess, "compiler::Compiler::preprocess": preprocess,
                     "Self::preprocess": preprocess}
        self.L = mir.BV(64, "L")
        self.c = mir.BV(64, "c")
        self.decls = ["(declare-const L (_ BitVec 64))", "(declare-const c (_ BitVec 64))"]
        self.pre = [f"(bvuge L (_ bv1 64))", f"(bvult L (_ bv{1 << PRE_BITS} 64))", f"(bvult c (_ bv{1 << PRE_BITS} 64))"]
        self.pp = mir.Obj("PublicParameters", {0: mir.Obj("CommitKey", {0: mir.Obj("Vec", {"len": self.L})}),
                                               1: mir.Obj("OpeningKey")})
        comp = mir.Obj("Composer", {0: mir.Obj("Vec", {"len": self.c})})
        I = mir.Interp(self.M, self.intr)
        self.compile_paths = I.run("::compile_with_composer", [self.pp, mir.Obj("label"), comp])
        self.compile_decls = list(I.decls)
        I2 = mir.Interp(self.M, self.intr)
        self.maxc_paths = I2.run("::max_constraints", [self.pp])
        self.maxc_decls = list(I2.decls)
        run.add_functions(["Compiler::compile_with_composer (capacity arithmetic)", "PublicParameters::trim",
                           "CommitKey::truncate", "CommitKey::max_degree", "PublicParameters::max_degree",
                           "Compiler::max_constraints", "CompressedCircuit::packed_size_limit",
                           "usize::next_power_of_two / leading_zeros / saturating_sub / checked_* (std semantics)"])
        run.bounds.append(f"ALL 64-bit constraint counts c < 2^{PRE_BITS} and key lengths 1 <= L < 2^{PRE_BITS} "
                          "(every power-of-two boundary +-8 included, because all values are)")
        run.assumptions.append("MIR of the current tree (nightly rustc, overflow checks on) interpreted path by path; "
                               "Vec is modelled by its length, slice indexing by its bounds check, "
                               "Compiler::preprocess is opaque (assumed to succeed)")

    def kind(self, out):
        if isinstance(out, mir.Panic):
            return "panic"
        if isinstance(out, mir.Enum):
            return out.variant
        return "other"

    def replay(self, run, decls, asserts):
        """a feasible capacity counterexample: a model with small c and L is asked for and run through
        the real compiler (direct and compressed route); reproduced iff the real outcome disagrees with
        the documented capacity rule or the two routes disagree"""
        import re
        import subprocess

        def rp(_model):
            script = ["(set-logic QF_BV)"] + [d for d in decls if not d.startswith(";")] + \
                     [f"(assert {a})" for a in asserts] + \
                     ["(assert (bvult c (_ bv3000 64)))", "(assert (bvult L (_ bv3400 64)))", "(assert (bvuge L (_ bv8 64)))",
                      "(assert (bvuge c (_ bv4 64)))", "(check-sat)", "(get-value (c L))"]
            p = subprocess.run(["z3-new", "-in", "-T:120"], input="\n".join(script), capture_output=True, text=True)
            if not p.stdout.startswith("sat"):
                return False, {"small-model": p.stdout[:200]}
            vals = {k: int(v, 16) for k, v in re.findall(r"\((\w+) #x([0-9a-f]+)\)", p.stdout)}
            c, L = vals["c"], vals["L"]
            rb = fw.run_driver(fw.REAL_BIN, ["kzg", "capacity", str(c), str(L - 7)], run.seed)
            o = rb["outputs"]
            pad = self.consts["CIRCUIT_SIZE_PADDING"][1]
            n = 1
            while n < c + pad:
                n *= 2
            spec_ok = n + 6 <= L - 1
            direct_ok, comp_ok = o["direct"] == "Ok", o["compressed"] == "Ok"
            bad = o["constraints"] == c and o["key_length"] == L and (direct_ok != spec_ok or direct_ok != comp_ok
                                                                      or "PANIC" in (o["direct"], o["compressed"]))
            return bad, {"c": c, "key_length": L, "driver": ["kzg", "capacity", str(c), str(L - 7)], "real": o,
                         "documented_rule_accepts": spec_ok}
        return rp

    def q(self, run, name, decls, asserts, kind="capacity", expect="unsat"):
        lines = ["; QF_BV"] + decls
        return run.obligation(name, lines, asserts, expect, kind, get_model=True,
                              replay=self.replay(run, decls, asserts) if expect == "unsat" and "packed" not in name else None)


def c01_obligations(run, cap):
    ad = cap.consts["ADDED_BLINDING_DEGREE"][1]
    pad = cap.consts["CIRCUIT_SIZE_PADDING"][1]
    n = npot(f"(bvadd c (_ bv{pad} 64))")
    spec_ok = f"(bvule (bvadd {n} (_ bv6 64)) (bvsub L (_ bv1 64)))"
    decls = cap.decls + cap.compile_decls
    nok = 0
    for i, (pc, out) in enumerate(cap.compile_paths):
        k = cap.kind(out)
        cond = cap.pre + list(pc)
        if k == "panic":
            cap.q(run, f"capacity/compile/path{i}/panic-infeasible", decls, cond, "panic-freedom")
        elif k == "Ok":
            nok += 1
            cap.q(run, f"capacity/compile/path{i}/ok-implies-spec", decls, cond + [f"(not {spec_ok})"])
        elif k == "Err":
            cap.q(run, f"capacity/compile/path{i}/err-implies-not-spec", decls, cond + [spec_ok])
            if "TruncatedDegreeTooLarge" not in str(out.payload):
                cap.q(run, f"capacity/compile/path{i}/err-kind-{out.payload}", decls, cond)
        else:
            run.inconclusive.append(f"capacity/compile/path{i}: unclassified outcome {out}")
    if nok == 0:
        run.inconclusive.append("capacity: no successful compile path")
    # reachability twins
    cap.q(run, "capacity/compile/reach-ok", cap.decls, cap.pre + [spec_ok], "vacuity", expect="sat")
    cap.q(run, "capacity/compile/reach-err", cap.decls, cap.pre + [f"(not {spec_ok})"], "vacuity", expect="sat")
    # key handed to preprocess: length = npot(c+6)+6+1, hence degree >= npot(c) + 6
    okpaths = [(i, pc) for i, (pc, out) in enumerate(cap.compile_paths) if cap.kind(out) == "Ok"]
    if len(okpaths) != len(cap.captured):
        run.inconclusive.append("capacity: captured preprocess calls do not match the successful paths")
    for (i, pc), args in zip(okpaths, cap.captured):
        ck = args[1]
        ln = ck.fields.get("len")
        if ln is None:
            for v in ck.fields.values():
                if isinstance(v, mir.Obj) and "len" in v.fields:
                    ln = v.fields["len"]
        if ln is None:
            run.inconclusive.append("capacity: could not read the commit key length passed to preprocess")
            continue
        want = f"(bvadd {n} (_ bv{ad + 1} 64))"
        # a path whose condition is infeasible under the precondition proves anything: fine
        cap.q(run, f"capacity/compile/path{i}/key-length", decls, cap.pre + list(pc) + [f"(not (= {ln.s} {want}))"])
        cap.q(run, f"capacity/compile/path{i}/degree-covers-domain+6", decls,
              cap.pre + list(pc) + [f"(bvult (bvsub {ln.s} (_ bv1 64)) (bvadd {npot('c')} (_ bv6 64)))"])


def c15_obligations(run, cap):
    decls = cap.decls + cap.compile_decls + cap.maxc_decls
    # max_constraints: panic paths infeasible; value M per path
    mpaths = []
    for i, (pc, out) in enumerate(cap.maxc_paths):
        if isinstance(out, mir.Panic):
            cap.q(run, f"capacity/max_constraints/path{i}/panic-infeasible", decls, cap.pre + list(pc), "panic-freedom")
        else:
            mpaths.append((pc, out))
    # every composer handed to the compiler starts with the 4 rows of Composer::initialized()
    init_rows = "(bvuge c (_ bv4 64))"
    run.assumptions.append("constraint count >= 4 (Composer::initialized emits four rows) in the route-agreement claim")
    for i, (pc, out) in enumerate(cap.compile_paths):
        k = cap.kind(out)
        for j, (mpc, M) in enumerate(mpaths):
            cond = cap.pre + [init_rows] + list(pc) + list(mpc)
            if k == "Ok":
                cap.q(run, f"capacity/routes-agree/compile{i}-max{j}/ok=>c<=max", decls, cond + [f"(bvugt c {M.s})"])
            elif k == "Err":
                cap.q(run, f"capacity/routes-agree/compile{i}-max{j}/err=>c>max", decls, cond + [f"(bvule c {M.s})"])
    # packed_size_limit: Ok(v) => v = m*K1 + K2 without wrap; Err <=> it would wrap
    I = mir.Interp(cap.M, cap.intr)
    m = mir.BV(64, "m")
    k1 = cap.consts["PACKED_BYTES_PER_CONSTRAINT"][1]
    k2 = cap.consts["PACKED_FIXED_BYTES"][1]
    wide = f"(bvadd (bvmul ((_ zero_extend 64) m) (_ bv{k1} 128)) (_ bv{k2} 128))"
    fits = f"(bvult {wide} (_ bv{1 << 64} 128))"
    d2 = ["(declare-const m (_ BitVec 64))"]
    for i, (pc, out) in enumerate(I.run("::packed_size_limit", [m])):
        k = cap.kind(out)
        if k == "panic":
            cap.q(run, f"capacity/packed_size_limit/path{i}/panic-infeasible", d2 + I.decls, list(pc), "panic-freedom")
        elif k == "Ok":
            cap.q(run, f"capacity/packed_size_limit/path{i}/exact", d2 + I.decls,
                  list(pc) + [f"(not (and {fits} (= ((_ zero_extend 64) {out.payload.s}) {wide})))"])
        else:
            cap.q(run, f"capacity/packed_size_limit/path{i}/err-only-on-overflow", d2 + I.decls, list(pc) + [fits])
