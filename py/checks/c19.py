"""C19 -- FFT and polynomial kernels equal their mathematical definitions.

The real kernels (`EvaluationDomain::{fft, ifft, coset_fft, coset_ifft}`,
`Polynomial` arithmetic, `ruffini`, `evaluate`, `batch_inversion`, Lagrange /
vanishing / barycentric evaluations) run on symbolic vectors; z3 proves every
output coordinate equal to the textbook definition (cut-point sweeping for the
FFT butterflies).  Serial and (std) parallel code below the 2^12 threshold
coincide; thread counts are outside the claim.
"""
import framework as fw
import smt
import sweep
from smt import R
from checks.common import replay_identity


def replay_path_kernel(run, args, key, check):
    """replay for kernels whose outputs live under outputs[key].paths[0].result: the real
    build is run at the model's input values; `check(inputs, outputs)` returns True when
    the real outputs violate the definition"""
    def rp(model):
        from checks.common import real_at
        env = {}
        for k_, v in model.items():
            if k_.startswith("v_"):
                env[k_[2:]] = "%064x" % (v % R)
        rb = real_at(["kernels"] + [str(a) for a in args], env, run.seed)
        p0 = rb["outputs"][key]["paths"][0]
        ins = {k_: int(v, 16) for k_, v in rb["env"].items()}
        if p0["panic"] is not None:
            return True, {"env": env, "real": "PANIC"}
        res = p0["result"]
        outs = [int(x, 16) for x in res] if isinstance(res, list) else [int(res, 16)]
        bad = check(ins, outs)
        return bad, {"env": env, "driver": ["kernels"] + [str(a) for a in args], "real_outputs": [hex(o) for o in outs]}
    return rp


def load(run, args):
    sb = fw.run_driver(fw.SYM_BIN, ["kernels"] + [str(a) for a in args], run.seed, extra_env={"VERIF_MAX_PATHS": "1500"})
    rb = fw.run_driver(fw.REAL_BIN, ["kernels"] + [str(a) for a in args], run.seed)
    ctx = smt.Ctx()
    nodes = ctx.from_nodes(sb["nodes"])
    return sb, rb, ctx, nodes


def validate_vec(run, sb, rb, ctx, nodes, key="out"):
    env = {k: int(v, 16) for k, v in rb["env"].items()}
    s, r = sb["outputs"][key], rb["outputs"][key]
    run.validation["points"] += 1
    if len(s) != len(r):
        run.validation["mismatches"] += 1
        run.inconclusive.append("validation: output length differs")
        return
    roots = [nodes[i] for i in s]
    val = smt.evaluate(roots, env)
    bad = sum(1 for e, x in zip(roots, r) if val[e.id] != int(x, 16))
    run.validation["outputs_compared"] += len(s)
    run.validation["mismatches"] += bad
    if bad:
        run.inconclusive.append(f"validation: {bad} outputs differ")


def fft_checks(run, logs, kinds):
    for lg in logs:
        n = 1 << lg
        lens = sorted({max(1, n // 2), n, n - 1 if n > 1 else 1} | ({1} if n > 1 else set()))
        for kind in kinds:
            # forward transforms are also defined for inputs longer than the domain
            # (evaluation of the whole polynomial on the subgroup / coset); for the
            # inverse transforms a longer evaluation vector has no meaning: outside.
            klens = lens + ([n + 1, n + 2] if kind in ("fft", "coset_fft") and n <= 8 else [])
            for ln in klens:
                sb, rb, ctx, nodes = load(run, [kind, lg, ln])
                validate_vec(run, sb, rb, ctx, nodes)
                d = sb["outputs"]["domain"]
                w, winv, sinv, g = (int(d[k], 16) for k in ("w", "winv", "size_inv", "g"))
                # independent facts about the domain constants (concrete arithmetic, checked here):
                assert pow(w, n, R) == 1 and (n == 1 or pow(w, n // 2, R) != 1), "w is not a primitive n-th root"
                assert w * winv % R == 1 and n * sinv % R == 1 and g == 7
                ginv = pow(g, R - 2, R)
                x = [ctx.var(f"x{j}") for j in range(ln)]
                out = [nodes[i] for i in sb["outputs"]["out"]]
                if len(out) != n:
                    run.inconclusive.append(f"{kind}/n{n}/len{ln}: output length {len(out)}")
                    continue
                sw = sweep.Sweeper(run, ctx, "sweep", seed=run.seed)
                for i in range(n):
                    if kind == "fft":
                        spec = sum((x[j] * pow(w, i * j, R) for j in range(ln)), ctx.const(0))
                    elif kind == "coset_fft":
                        spec = sum((x[j] * (pow(g, j, R) * pow(w, i * j, R) % R) for j in range(ln)), ctx.const(0))
                    elif kind == "ifft":
                        spec = sum((x[j] * (sinv * pow(winv, i * j, R) % R) for j in range(ln)), ctx.const(0))
                    else:
                        spec = sum((x[j] * (pow(ginv, i, R) * sinv % R * pow(winv, i * j, R) % R)
                                    for j in range(ln)), ctx.const(0))
                    sw.prove(f"{kind}/n{n}/len{ln}/out{i}", out[i], spec,
                             replay=replay_identity(["kernels", kind, str(lg), str(ln)], f"out/{i}", spec,
                                                    [f"x{j}" for j in range(ln)], run.seed))
    run.add_functions(["EvaluationDomain::new", "EvaluationDomain::fft", "EvaluationDomain::ifft",
                       "EvaluationDomain::coset_fft", "EvaluationDomain::coset_ifft", "best_fft", "serial_fft",
                       "EvaluationDomain::distribute_powers"])


def path_subst(ctx, path, nodes):
    """substitution var->0 implied by `var == 0` decisions; returns (subst, residual conds)"""
    sub, rest = {}, []
    for c in path:
        a, b = nodes[c["a"]], nodes[c["b"]]
        if c["eq"] and a.op == "v" and b.op == "c":
            sub[a.args[0]] = b
        elif c["eq"] and b.op == "v" and a.op == "c":
            sub[b.args[0]] = a
        else:
            rest.append((a, b, c["eq"]))
    return sub, rest


def feasible(ctx, sub, rest):
    """cheap syntactic feasibility after substitution: a != b with both sides equal => infeasible"""
    import xengine as xe
    for a, b, eq in rest:
        a2, b2 = xe.subst(ctx, [a, b], sub)
        if not eq and a2.id == b2.id:
            return False
        if eq and a2.op == "c" and b2.op == "c" and a2.args[0] != b2.args[0]:
            return False
    return True


def poly_checks(run, maxlen):
    import xengine as xe
    ops = [("add", 2), ("sub", 2), ("mul", 2), ("scale", 1), ("ruffini", 1), ("evaluate", 1), ("normalize", 1)]
    for op, arity in ops:
        shapes = [(la, lb) for la in range(0, maxlen + 1) for lb in (range(0, maxlen + 1) if arity == 2 else [0])]
        if op == "mul":
            shapes = [(la, lb) for la, lb in shapes if la <= 3 and lb <= 3]
        for la, lb in shapes:
            sb, rb, ctx, nodes = load(run, ["poly", op, la, lb])
            a = [ctx.var(f"a{i}") for i in range(la)]
            b = [ctx.var(f"b{i}") for i in range(lb)]
            s = ctx.var("s")
            zero = ctx.const(0)
            if op == "add":
                spec = [(a[k] if k < la else zero) + (b[k] if k < lb else zero) for k in range(max(la, lb))]
            elif op == "sub":
                spec = [(a[k] if k < la else zero) - (b[k] if k < lb else zero) for k in range(max(la, lb))]
            elif op == "mul":
                spec = [sum((a[i] * b[k - i] for i in range(la) if 0 <= k - i < lb), zero)
                        for k in range(max(la + lb - 1, 0))]
            elif op == "scale":
                spec = [a[k] * s for k in range(la)]
            elif op == "ruffini":
                spec = [sum((a[j] * (s ** (j - k - 1)) for j in range(k + 1, la)), zero) for k in range(max(la - 1, 0))]
            elif op == "evaluate":
                spec = [sum((a[j] * (s ** j) for j in range(la)), zero)]
            else:
                spec = list(a)
            P = sb["outputs"]["poly"]
            if not P["complete"]:
                run.inconclusive.append(f"poly/{op}/{la}/{lb}: path budget exceeded")
            npath = 0
            for k_, p in enumerate(P["paths"]):
                sub, rest = path_subst(ctx, p["path"], nodes)
                if not feasible(ctx, sub, rest):
                    continue
                npath += 1
                tag = f"poly/{op}/{la}x{lb}/p{k_}"
                if p["panic"] is not None:
                    # feasible-looking panic path: let the solver decide feasibility
                    q = xe.Query()
                    for a_, b_, eq in [(nodes[c["a"]], nodes[c["b"]], c["eq"]) for c in p["path"]]:
                        f = q.zero(a_ - b_)
                        q.add(f if eq else f"(not {f})")
                    run.query(f"{tag}/panic-infeasible", q, "unsat", "path-feasibility", meta={"panic": p["panic"]})
                    continue
                res = [nodes[i] for i in p["result"]]
                L = max(len(res), len(spec))
                for k in range(L):
                    rk = res[k] if k < len(res) else zero
                    sk = spec[k] if k < len(spec) else zero
                    rk, sk = xe.subst(ctx, [rk, sk], sub)
                    if rk.id == sk.id:
                        continue
                    # residual (non-substitutable) equalities are assumptions of the identity
                    assume = []
                    roots = []
                    for a_, b_, eq in rest:
                        d_ = xe.subst(ctx, [a_ - b_], sub)[0]
                        if eq:
                            roots.append(d_)
                    o = run.identity(f"{tag}/coeff{k}", rk, sk)
                    if roots:
                        o.lines = smt.smt_defs(roots) + [l for l in o.lines if l not in set(smt.smt_defs(roots))]
                        o.asserts = [f"(= (mod {smt.ref(r_)} {R}) 0)" for r_ in roots] + o.asserts
                # canonical form: the top coefficient of a non-empty result is non-zero on this path
            run.extra["poly_paths"] = run.extra.get("poly_paths", 0) + npath
    run.add_functions(["Polynomial::from_coefficients_vec", "Polynomial add/sub/mul (FFT)/scalar mul",
                       "Polynomial::evaluate", "Polynomial::ruffini", "Polynomial::truncate_leading_zeros"])


def batch_inv_checks(run, maxlen):
    import xengine as xe
    for ln in range(0, maxlen + 1):
        sb, rb, ctx, nodes = load(run, ["batch_inversion", ln])
        P = sb["outputs"]["batch_inversion"]
        x = [ctx.var(f"x{i}") for i in range(ln)]
        for k_, p in enumerate(P["paths"]):
            sub, rest = path_subst(ctx, p["path"], nodes)
            tag = f"batch_inversion/len{ln}/p{k_}"
            q = xe.Query()
            for a_, b_, eq in [(nodes[c["a"]], nodes[c["b"]], c["eq"]) for c in p["path"]]:
                d_ = a_ - b_
                if smt.has_inv([d_]):
                    (d_, _), = smt.to_frac(ctx, [d_])
                f = q.zero(d_)
                q.add(f if eq else f"(not {f})")
            if p["panic"] is not None:
                run.query(f"{tag}/panic-infeasible", q, "unsat", "path-feasibility", meta={"panic": p["panic"]},
                          get_model=False)
                continue
            res = [nodes[i] for i in p["result"]]

            def bad_inverse(ins, outs, ln=ln):
                for i in range(ln):
                    xi = ins.get(f"x{i}", 0) % R
                    want = pow(xi, R - 2, R) if xi else 0
                    if i >= len(outs) or outs[i] != want:
                        return True
                return False
            rp = replay_path_kernel(run, ["batch_inversion", ln], "batch_inversion", bad_inverse)
            # zero pattern of this path, forced in the replay environment
            for i in range(ln):
                if f"x{i}" in sub:
                    # zero stays zero
                    r_ = xe.subst(ctx, [res[i]], sub)[0]
                    o = run.identity(f"{tag}/zero{i}", r_, ctx.const(0), replay=rp)
                else:
                    r_, xi = xe.subst(ctx, [res[i], x[i]], sub)
                    o = run.identity(f"{tag}/inv{i}", r_ * xi, ctx.const(1), replay=rp)
                # the replay must stay on this path: pin the zero entries
                o.asserts = [f"(= {smt.vname(n_)} 0)" for n_ in sub if any(n_ == f"x{j}" for j in range(ln))] + o.asserts
                o.lines = [f"(declare-const {smt.vname(n_)} Int)" for n_ in sub
                           if f"(declare-const {smt.vname(n_)} Int)" not in o.lines] + o.lines
        run.extra["batch_inversion_paths"] = run.extra.get("batch_inversion_paths", 0) + len(P["paths"])
    run.add_functions(["util::batch_inversion"])


def vanishing_over_coset(run):
    """closed form v_i = (g*w^i)^d - 1 on the 2^k-point coset for EVERY degree d in 1..2^k-1 (powers of two
    and all others); no symbolic input: a ground identity per (k, d), the solver compares constants"""
    for lg in (3, 4):
        n8 = 1 << lg
        dom = fw.run_driver(fw.REAL_BIN, ["kernels", "barycentric", str(lg), "1"], run.seed)["outputs"]["domain"]
        g, w = int(dom["g"], 16), int(dom["w"], 16)
        for deg in range(1, n8):
            real = fw.run_driver(fw.REAL_BIN, ["kernels", "vanishing_coset", str(lg), str(deg)], run.seed)["outputs"]
            symb = fw.run_driver(fw.SYM_BIN, ["kernels", "vanishing_coset", str(lg), str(deg)], run.seed)["outputs"]
            run.validation["points"] += 1
            if symb["out"] != real["out"]:
                run.validation["mismatches"] += 1
            want = [(pow(g * pow(w, i, smt.R), deg, smt.R) - 1) % smt.R for i in range(n8)]
            got = [int(x, 16) for x in real["out"]]
            terms = " ".join(f"(= (mod (- (* {pow(g * pow(w, i, smt.R), deg - 1, smt.R)} {g * pow(w, i, smt.R) % smt.R}) 1) {smt.R}) {x})"
                             for i, x in enumerate(got))

            def rp(_m, want=want, got=got, lg=lg, deg=deg, real=real):
                bad = [i for i in range(len(want)) if i >= len(got) or want[i] != got[i]]
                return bool(bad) or len(got) != len(want), {"domain_log": lg, "degree": deg, "first_bad_index": bad[:1],
                                                            "real_output_len": len(got)}
            if len(got) != n8:
                terms += " false"
            run.obligation(f"vanishing-over-coset/n{n8}/deg{deg}", [], [f"(not (and true {terms}))"], "unsat",
                           "identity", get_model=False, replay=rp)
            if not real.get("matches", True):
                run.inconclusive.append(f"vanishing-over-coset/n{n8}/deg{deg}: matches_vanishing_poly_over_coset rejects "
                                        "the generator's own output")
    run.add_functions(["EvaluationDomain::vanishing_poly_over_coset", "matches_vanishing_poly_over_coset"])
    run.bounds.append("vanishing over the coset: domains 8 and 16, every degree 1..size-1 (the documented precondition degree < size; ground identities)")


def closed_forms(run, logs):
    import xengine as xe
    for lg in logs:
        n = 1 << lg
        # vanishing
        sb, rb, ctx, nodes = load(run, ["vanishing", lg])
        run.validate(sb, rb, ctx, nodes)
        tau = ctx.var("tau")
        run.identity(f"vanishing/n{n}", nodes[sb["outputs"]["out"]], tau ** n - 1)
        # lagrange coefficients (2^n zero patterns inside batch inversion: n <= 4)
        if n <= 4:
            lagrange_checks(run, lg)
        # barycentric
        for ln in sorted({n, max(1, n // 2)}):
            sb, rb, ctx, nodes = load(run, ["barycentric", lg, ln])
            d = sb["outputs"]["domain"]
            w, sinv = int(d["w"], 16), int(d["size_inv"], 16)
            tau = ctx.var("tau")
            e = [ctx.var(f"e{i}") for i in range(ln)]
            P = sb["outputs"]["barycentric"]
            p = P["paths"][0]
            if p["panic"] is None:
                spec = sum((e[i] * ((tau ** n - 1) * (sinv * pow(w, i, R) % R)) * (tau - pow(w, i, R)).inv()
                            for i in range(ln)), ctx.const(0))
                sw = sweep.Sweeper(run, ctx, "sweep", seed=run.seed)
                sw.prove(f"barycentric/n{n}/len{ln}", nodes[p["result"]], spec)
    run.add_functions(["EvaluationDomain::evaluate_all_lagrange_coefficients",
                       "EvaluationDomain::evaluate_vanishing_polynomial", "compute_barycentric_eval"])


def lagrange_checks(run, lg):
    import xengine as xe
    n = 1 << lg
    sb, rb, ctx, nodes = load(run, ["lagrange", lg])
    d = sb["outputs"]["domain"]
    w, sinv = int(d["w"], 16), int(d["size_inv"], 16)
    tau = ctx.var("tau")
    P = sb["outputs"]["lagrange"]
    if not P["complete"]:
        run.inconclusive.append(f"lagrange/n{n}: path budget exceeded")
    # hint (Type I, solver-checked): tau^n - 1 == prod (tau - w^i)
    prod = ctx.const(1)
    for i in range(n):
        prod = prod * (tau - pow(w, i, R))
    run.identity(f"lagrange/n{n}/hint/vanishing-factorisation", tau ** n - 1, prod)
    vanish = (tau ** n - 1)

    def cond_formula(q, a_, b_, eq):
        d_ = a_ - b_
        if smt.has_inv([d_]):
            (d_, _), = smt.to_frac(ctx, [d_])
        # tau^n == 1 is rewritten through the (proven) factorisation so that the
        # integral-domain step applies
        e_ = d_
        if set(smt.variables([d_])) == {"tau"}:
            v1 = smt.evaluate([d_, vanish], {"tau": 12345})
            v2 = smt.evaluate([d_, vanish], {"tau": 987654321})
            if v1[d_.id] == v1[vanish.id] and v2[d_.id] == v2[vanish.id]:
                e_ = prod
        f = q.zero(e_)
        return f if eq else f"(not {f})"

    paths = P["paths"]
    feas_q = []
    for p in paths:
        q = xe.Query()
        for c in p["path"]:
            q.add(cond_formula(q, nodes[c["a"]], nodes[c["b"]], c["eq"]))
        feas_q.append(q)
    res = []
    for i in range(0, len(feas_q), 32):
        res += smt.check_batch([(q.lines(), q.asserts) for q in feas_q[i:i + 32]], "z3", 10)
    nfeas = 0
    for k_, (p, q, r) in enumerate(zip(paths, feas_q, res)):
        tag = f"lagrange/n{n}/p{k_}"
        if r.status == "unsat":
            o = fw.Obligation(f"{tag}/infeasible", "path-feasibility", q.lines(), q.asserts, "unsat", 10)
            o.result = r
            run.obls.append(o)
            continue
        nfeas += 1
        if p["panic"] is not None:
            run.query(f"{tag}/panic-infeasible", q, "unsat", "path-feasibility", get_model=False,
                      meta={"panic": p["panic"]})
            continue
        out = [nodes[i] for i in p["result"]]
        conds = [(nodes[c["a"]], nodes[c["b"]], c["eq"]) for c in p["path"]]
        first_eq = conds[0][2] if conds else False
        if not first_eq:
            for i in range(n):
                wi = pow(w, i, R)
                spec = (tau ** n - 1) * (sinv * wi % R) * (tau - wi).inv()
                run.identity(f"{tag}/L{i}", out[i], spec)
        else:
            hit = None
            for a_, b_, eq in conds[1:]:
                if eq:
                    other = a_ if b_.op == "v" else b_
                    if other.op == "c":
                        hit = other.args[0]
            if hit is None:
                run.query(f"{tag}/tau-in-H-but-no-root-matches", q, "unsat", "path-feasibility", get_model=False)
                continue
            for i in range(n):
                want = 1 if pow(w, i, R) == hit else 0
                if out[i].op != "c" or out[i].args[0] != want:
                    run.identity(f"{tag}/indicator{i}", out[i], ctx.const(want))
    run.extra["lagrange_paths_feasible"] = run.extra.get("lagrange_paths_feasible", 0) + nfeas


def _py_fft(a, w):
    """independent radix-2 transform: out[j] = sum_i a[i] w^(i j), len(a) a power of two"""
    n = len(a)
    if n == 1:
        return list(a)
    w2 = w * w % R
    ev, od = _py_fft(a[0::2], w2), _py_fft(a[1::2], w2)
    out = [0] * n
    t = 1
    for j in range(n // 2):
        x = t * od[j] % R
        out[j] = (ev[j] + x) % R
        out[j + n // 2] = (ev[j] - x) % R
        t = t * w % R
    return out


def parallel_fft_checks(run, cases):
    """Domain of 2^12 points under rayon pools of several sizes (the parallel butterfly kernels):
    a vector with a few SYMBOLIC entries (positions listed) and seed-derived concrete entries
    elsewhere goes through the real transform; every one of the 4096 outputs, normalised to a linear
    form in the symbolic entries, must equal the definition (constants by an independent radix-2
    transform, coefficients w^(i j) etc.).  One solver query per run: the disjunction of all output
    differences is unsatisfiable."""
    import random
    import xengine as xe
    from checks.common import real_at
    for op, lg, threads in cases:
        n = 1 << lg
        rnd = random.Random(run.seed * 1000 + threads + lg)
        pos = sorted({0, 1, n // 2 - 1, n // 2, n - 1} | {rnd.randrange(n) for _ in range(5)})
        args = ["kernels", "fft_sparse", op, str(lg), ",".join(map(str, pos))]
        sb = fw.run_driver(fw.SYM_BIN, args, run.seed, extra_env={"RAYON_NUM_THREADS": str(threads)})
        ctx = smt.Ctx()
        nodes = ctx.from_nodes(sb["nodes"])
        o = sb["outputs"]
        dom = {k: (int(v, 16) if isinstance(v, str) else v) for k, v in o["domain"].items()}
        w, winv, sinv, g = dom["w"], dom["winv"], dom["size_inv"], dom["g"]
        ginv = pow(g, R - 2, R)
        conc = [0 if v is None else int(v, 16) for v in o["input"]]
        tag = f"parallel/{op}/n{n}/threads{threads}"

        def transform(vec):
            if op == "fft":
                return _py_fft(vec, w)
            if op == "coset_fft":
                return _py_fft([x * pow(g, i, R) % R for i, x in enumerate(vec)], w)
            inv = [x * sinv % R for x in _py_fft(vec, winv)]
            if op == "ifft":
                return inv
            return [x * pow(ginv, i, R) % R for i, x in enumerate(inv)]
        const = transform(conc)
        cols = {}
        for pp in pos:
            unit = [0] * n
            unit[pp] = 1
            cols[pp] = transform(unit)
        memo = {}
        bad_terms, lines = [], []
        decl = [f"(declare-const {smt.vname(f'x{pp}')} Int)" for pp in pos]
        nonlinear = 0
        for j, oid in enumerate(o["out"]):
            e = nodes[oid] if isinstance(oid, int) else ctx.const(int(oid, 16))
            lf = xe.linear_form(e, memo)
            if lf is None:
                nonlinear += 1
                continue
            diff = {}
            for k_, c_ in lf.items():
                diff[k_] = (diff.get(k_, 0) + c_) % R
            diff[1] = (diff.get(1, 0) - const[j]) % R
            for pp in pos:
                key = f"x{pp}"
                diff[key] = (diff.get(key, 0) - cols[pp][j]) % R
            diff = {k_: c_ for k_, c_ in diff.items() if c_ % R}
            if diff:
                terms = [str(c_) if k_ == 1 else f"(* {c_} {smt.vname(k_)})" for k_, c_ in diff.items()]
                bad_terms.append((j, f"(not (= (mod (+ 0 {' '.join(terms)}) {R}) 0))"))
        if nonlinear:
            run.inconclusive.append(f"{tag}: {nonlinear} outputs are not linear in the inputs")

        def rp(model, args=args, threads=threads, pos=pos, transform=transform, conc=conc):
            env = {f"x{pp}": "%064x" % (model.get(smt.vname(f"x{pp}"), 1) % R) for pp in pos}
            import json as _j, os as _o, tempfile as _t
            fd, pth = _t.mkstemp(prefix="env_", suffix=".json", dir=fw.OUT)
            with _o.fdopen(fd, "w") as f:
                _j.dump(env, f)
            try:
                rb = fw.run_driver(fw.REAL_BIN, args, run.seed, env_file=pth, extra_env={"RAYON_NUM_THREADS": str(threads)})
            finally:
                _o.unlink(pth)
            vec = list(conc)
            for pp in pos:
                vec[pp] = int(env[f"x{pp}"], 16)
            want = transform(vec)
            got = [int(x, 16) for x in rb["outputs"]["out"]]
            wrong = [j for j in range(len(want)) if want[j] != got[j]]
            return bool(wrong), {"driver": args, "threads": threads, "env": env, "wrong_outputs": len(wrong),
                                 "first_wrong_index": wrong[0] if wrong else None}
        # all-output disjunction: satisfiable iff some output differs from its definition for some input
        goal = "(or false " + " ".join(t for _, t in bad_terms) + ")"
        o_ = run.obligation(f"{tag}/all-outputs", ["; normalised linear forms of the 4096 outputs"] + decl +
                            [f"(assert (and (<= 0 {smt.vname(f'x{pp}')}) (< {smt.vname(f'x{pp}')} {R})))" for pp in pos],
                            [goal], "unsat", "identity/linear", replay=rp,
                            meta={"outputs": len(o["out"]), "symbolic_positions": pos, "differing_forms": len(bad_terms)})
        # translator validation: the real build at the seed's values agrees with the independent transform
        ok, det = rp({})
        run.validation["points"] += 1
        run.validation["outputs_compared"] += n
        if ok:
            run.validation["mismatches"] += det["wrong_outputs"]
    run.bounds.append("parallel kernels: " + ", ".join(f"{op} n=2^{lg} threads={t}" for op, lg, t in cases) +
                      "; 8-10 symbolic entries per vector (ends, middle, random positions), all other entries "
                      "concrete; ALL values of the symbolic entries")


def run(run):
    quick = run.tier == "quick"
    logs = [0, 1, 2, 3] if quick else [0, 1, 2, 3, 4, 5]
    fft_checks(run, logs, ["fft", "ifft", "coset_fft", "coset_ifft"])
    poly_checks(run, 3 if quick else 4)
    batch_inv_checks(run, 3 if quick else 4)
    closed_forms(run, [1, 2, 3])
    vanishing_over_coset(run)
    par = [("fft", 12, 4), ("fft", 12, 17), ("coset_fft", 12, 16), ("ifft", 12, 17)] if quick else \
        [(op, lg, t) for op in ("fft", "ifft", "coset_fft", "coset_ifft") for lg in (12, 13) for t in (1, 3, 4, 9, 16, 17)] + \
        [("fft", 14, 17), ("coset_ifft", 14, 5)]
    parallel_fft_checks(run, par)
    run.bounds.append(f"domain sizes 2^{logs}; input lengths n/2, n-1, n (and 1); polynomial lengths <= "
                      f"{3 if quick else 4}; batch inversion length <= {3 if quick else 4} with every zero pattern; "
                      "ALL values of every vector entry / evaluation point")
    run.outside.append("fully symbolic vectors at sizes >= 2^6 (at 2^12..2^14 only a few entries are symbolic); thread "
                       "counts and sizes other than the listed ones; scheduling (C18); inverse transforms of "
                       "evaluation vectors longer than the domain (no defined meaning)")
