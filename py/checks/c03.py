"""C03 -- the verifier decides exactly the protocol's equation and transcript.

The REAL `Verifier::try_from_bytes` / `Proof::from_bytes` /
`Verifier::verify_with_version` run on byte strings whose 26 proof fields, 15
verifier-key commitments, opening key and public inputs are symbolic; the
Fiat-Shamir hash is a random oracle (every challenge a fresh variable named by
its complete history) and the pairing check is its discrete-log form.
"""
import framework as fw
import smt
from smt import R
from spec import verifier as vspec
from checks.verifier_common import VRun, render_spec_sequence, accept_replay
import sweep


def configs(run):
    if run.tier == "quick":
        return [(4, [], "3"), (4, [1], "3"), (4, [0, 3], "3"), (4, [1], "2"), (4, [1], "1"), (7, [0, 5, 6], "3")]
    out = []
    for n in (4, 8, 13, 16):
        size = 1
        while size < n:
            size *= 2
        for rows in ([], [0], [size - 1], [0, 1], [0, 1, size - 1]):
            for ver in ("1", "2", "3"):
                out.append((n, [r for r in rows if r < size], ver))
    return out


def run(run):
    import concurrent.futures as cf
    import threading
    lock = threading.Lock()
    cfgs = configs(run)
    with cf.ThreadPoolExecutor(max_workers=8) as ex:
        futs = [ex.submit(one_config, run, c, lock) for c in cfgs]
        for f in futs:
            f.result()
    run.bounds.append("constraint counts / public-input rows / versions: " +
                      ", ".join(f"(n={n}, pi={r}, V{v})" for n, r, v in cfgs) +
                      "; ALL values of the 26 proof fields, 15 VK commitments, opening key, public inputs and challenges")
    run.assumptions.append("Fiat-Shamir hash modelled as a random oracle: every challenge is a fresh variable "
                           "determined by the complete transcript history; pairing check in discrete-log form "
                           "(G1, G2, Gt cyclic of prime order r)")
    run.outside.append("counterexample replay of acceptance differences runs the real verifier code against the "
                       "dependency copy in concrete mode with a scripted random oracle (challenges cannot be "
                       "chosen on the unpatched build)")


def one_config(run, cfg, lock):
    (n, pi_rows, ver) = cfg
    if True:
        tag = f"n{n}/pi{'-'.join(map(str, pi_rows)) or 'none'}/V{ver}"
        vr = VRun(run, n, pi_rows, len(pi_rows), ver, explore="all")
        if not vr.complete:
            run.inconclusive.append(f"{tag}: path budget exceeded")
        p = vr.main_accept()
        if p is None:
            run.inconclusive.append(f"{tag}: no generic accepting path found")
            return
        hist, chn = vr.history(p)
        if hist is None or any(l not in chn for l in vspec.CHALLENGE_LABELS):
            run.violations.append((f"{tag}/transcript", _write(run, tag, "missing challenges", hist, None)))
            return
        # ---- obligation 2: transcript sequence == spec sequence (payloads as term handles)
        spec_hist = render_spec_sequence(vr, chn)
        if hist != spec_hist:
            run.violations.append((f"{tag}/transcript", _write(run, tag, "sequence differs", hist, spec_hist)))
        with lock:
            run.extra["transcript_sequences_compared"] = run.extra.get("transcript_sequences_compared", 0) + 1
        # ---- obligation 1: acceptance polynomial == spec
        conds = vr.conds(p)
        V_real = conds[-1][0] - conds[-1][1]
        v, ch, pis = vr.spec_env(chn)
        V_spec = vspec.acceptance(vr.ctx, v, ch, n, pi_rows, pis, ver)
        sw = sweep.Sweeper(run, vr.ctx, "sweep", seed=run.seed)
        sw.prove(f"{tag}/acceptance==spec", V_real, V_spec, replay=accept_replay(run, vr, V_real, V_spec))
        # translator validation + vacuity: a proof constructed to satisfy the symbolic
        # acceptance polynomial is accepted by the real verifier on the unpatched build
        ok, det = accept_replay(run, vr, V_real, V_real, tries=1)({})
        run.validation["points"] += 1
        run.validation["outputs_compared"] += len(det.get("trials", []))
        if ok or not det.get("trials") or not all(t["real_verifier"] and t["real_verifier"].get("result") == "Ok"
                                                  for t in det["trials"]):
            run.validation["mismatches"] += 1
            run.inconclusive.append(f"{tag}: a proof solving the symbolic acceptance polynomial is not accepted "
                                    f"by the real verifier: {det}"[:400])
        # ---- obligation 3: paths.  Every path ends in Ok/Err (no panic); every
        # Err-before-pairing path is a denominator == 0 (or opening-key identity) path
        for k, q in enumerate(vr.paths):
            if q["panic"] is not None:
                # a panicking path is a violation iff its path condition is feasible;
                # conditions are encoded with the integral-domain rewriting (r prime)
                import xengine as xe
                qq = xe.Query()
                bad = False
                for a, b, eq, forced in vr.conds(q):
                    d = a - b
                    if smt.has_inv([d]):
                        (dn, dd), = smt.to_frac(vr.ctx, [d])
                        d = dn
                    f = qq.zero(d)
                    qq.add(f if eq else f"(not {f})")
                run.query(f"{tag}/path{k}/panic-infeasible", qq, "unsat", "path-feasibility",
                          meta={"panic": q["panic"]}, get_model=False)
        with lock:
            run.extra["paths_explored"] = run.extra.get("paths_explored", 0) + len(vr.paths)


def _write(run, tag, what, hist, spec):
    import json, os
    d = os.path.join(fw.OUT, "cex")
    os.makedirs(d, exist_ok=True)
    p = os.path.join(d, f"C03_{tag.replace('/', '_')}_transcript.json")
    first = None
    if hist and spec:
        for i, (a, b) in enumerate(zip(hist, spec)):
            if a != b:
                first = {"index": i, "real": a, "spec": b}
                break
        if first is None and len(hist) != len(spec):
            first = {"index": min(len(hist), len(spec)), "real_len": len(hist), "spec_len": len(spec)}
    json.dump({"property": "C03", "what": what, "first_difference": first, "real": hist, "spec": spec},
              open(p, "w"), indent=1)
    return p
