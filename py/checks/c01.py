"""C01 -- completeness (partial).

(a) capacity / degree arithmetic for ALL constraint counts and key lengths
    (engine M: bit-vector translation of the MIR of compile_with_composer, trim,
    truncate): compilation succeeds  <=>  npot(c+6)+6 <= L-1, the key handed to
    preprocessing has exactly npot(c+6)+7 powers, which covers domain size + 6;
    no overflow / index panic is feasible.
(b) an algebraic completeness instance: the REAL compile + prove + verify run on
    a tiny satisfied circuit with a symbolic SRS (secret x, bases) and ALL 14
    blinders symbolic (challenges scripted).  The real prover returns a proof
    and the real verifier's pairing comparison is decided `equal` by the
    symbolic run; the solver then proves that this equality, and the vanishing
    of the quotient's high coefficients (the prover's CircuitUnsatisfied test),
    hold for EVERY value of x and of the blinders: the acceptance polynomial is
    proven zero at deg+1 distinct concrete values of x (deg = structural degree
    bound), each for all blinder values.
"""
import framework as fw
import smt
import xengine as xe
from smt import R
from checks.capacity import Capacity, c01_obligations


def degree_bound(root, var):
    deg = {}
    for e in smt.topo([root]):
        if e.op == "v":
            deg[e.id] = 1 if e.args[0] == var else 0
        elif e.op == "c":
            deg[e.id] = 0
        elif e.op in "+-":
            deg[e.id] = max(deg[e.args[0].id], deg[e.args[1].id])
        elif e.op == "*":
            deg[e.id] = deg[e.args[0].id] + deg[e.args[1].id]
        elif e.op == "n":
            deg[e.id] = deg[e.args[0].id]
        else:
            raise ValueError("inverse in a polynomial")
    return deg[root.id]


def completeness_instance(run, kind):
    sb = fw.run_driver(fw.SYM_BIN, ["prove", str(kind)], run.seed)
    run.add_functions(sb["meta"]["functions"])
    o = sb["outputs"]
    tag = f"instance/circuit{kind}"
    if "error" in o:
        run.violations.append((f"{tag}/prover-error", _w(run, tag, f"honest proving failed: {o['error']}")))
        return
    if o.get("verified") != "Ok(())":
        run.violations.append((f"{tag}/verifier-rejects", _w(run, tag, f"real verifier on the symbolic honest proof: {o.get('verified')}")))
        return
    ctx = smt.Ctx()
    nodes = ctx.from_nodes(sb["nodes"])
    forced = [c for c in o["path"] if c["forced"]]
    if not forced:
        run.inconclusive.append(f"{tag}: no identity obligations recorded")
        return
    # the last forced comparison is the verifier's pairing check; the others are the
    # prover's leading-coefficient tests (quotient degree / polynomial normalisation)
    *inner, last = forced
    for k, c in enumerate(inner):
        a, b = nodes[c["a"]], nodes[c["b"]]
        ob = run.identity(f"{tag}/prover-identity/{k}", a, b)
        ob.timeout = 120 if run.tier == "quick" else 600
        # the prover's own normalisation tests (is the leading coefficient zero?): not part of the
        # completeness claim proper; an undecided one is counted, not failed
        ob.optional = True
        ob.get_model = False
    V = nodes[last["a"]] - nodes[last["b"]]
    D = degree_bound(V, "srs0")
    if D > 40:
        run.inconclusive.append(f"{tag}: degree bound {D} too large")
        return
    run.extra[f"{tag}/acceptance-degree-bound-in-x"] = D
    # the bases enter linearly: V has degree <= 1 in each of srs1 (G1 base) and srs2 (G2 base);
    # a polynomial of degree <= 1 that vanishes at 0 and at 1 is zero
    for base in ("srs1", "srs2"):
        db = degree_bound(V, base)
        if db > 1:
            run.inconclusive.append(f"{tag}: degree {db} in {base}")
            return
        V0 = xe.subst(ctx, [V], {base: ctx.const(0)})[0]
        run.identity(f"{tag}/acceptance-zero/{base}=0", V0, ctx.const(0)).get_model = False
    # D + 1 distinct points decide the polynomial; a few spare points are queried as well, because
    # the solver occasionally does not decide one within the cap (which points are hard varies with
    # the scripted challenges, i.e. with the seed).  All points are solved here, in parallel; the
    # first D + 1 decided ones are kept as obligations, undecided spares are dropped (and counted).
    import concurrent.futures as cf
    spare = 4
    cand = []
    for i in range(D + 1 + spare):
        xv = 3 + 7 * i
        Vx = xe.subst(ctx, [V], {"srs0": ctx.const(xv), "srs1": ctx.const(1), "srs2": ctx.const(1)})[0]
        ob = run.identity(f"{tag}/acceptance-zero/x={xv}", Vx, ctx.const(0))
        ob.timeout = 240 if run.tier == "quick" else 900
        ob.get_model = False
        ob.optional = kind != 0
        run.obls.remove(ob)
        cand.append(ob)

    def solve(ob):
        ob.result = smt.check(ob.lines, ob.asserts, "z3", ob.timeout, get_model=False)
        return ob
    with cf.ThreadPoolExecutor(max_workers=min(16, len(cand))) as ex:
        list(ex.map(solve, cand))
    refuted = [ob for ob in cand if ob.result.status == "sat"]
    decided = [ob for ob in cand if ob.result.status == "unsat"]
    if refuted:
        for ob in refuted:
            ob.result = None        # solved again with a model and judged by the framework
            ob.get_model = True
        run.obls.extend(refuted)
    elif len(decided) >= D + 1:
        run.obls.extend(decided[:D + 1])
        run.extra[f"{tag}/spare-points-undecided"] = len(cand) - len(decided)
    else:
        run.obls.extend(decided)
        for ob in cand:
            if ob.result.status not in ("unsat", "sat"):
                ob.result = None    # one more attempt by the framework; undecided => inconclusive (or optional)
                run.obls.append(ob)
    run.notes.append(f"{tag}: acceptance polynomial has degree <= {D} in the SRS secret x (structural bound); it is "
                     f"queried at {D + 1} distinct values of x (bases = 1) for all blinder values, and at base = 0 for each "
                     "base (degree <= 1 in each base); if every query is discharged it vanishes identically"
                     + ("" if kind == 0 else " (instance 1: undecided points are listed under optional_undecided)"))


def run(run):
    cap = Capacity(run)
    c01_obligations(run, cap)
    completeness_instance(run, 0)
    if run.tier != "quick":
        completeness_instance(run, 1)
    # "holds equally from a compressed description": the compressed route yields the SAME keys (terms)
    # as direct compilation on a few shapes around the encoder's size-class boundaries (full sweep: C15)
    from checks.c15 import routes
    routes(run, only=[(6, 1, 0, 0, 1), (66, 3, 0, 0, 1), (72, 3, 0, 0, 1), (90, 15, 0, 0, 1), (96, 16, 0, 0, 1),
                      (8, 2, 1, 1, 1)], prop="C01")
    run.outside.append("all sequences of components, proving at real sizes, the negligible degenerate-blinder event; "
                       "compressed / serialized routes beyond the listed shapes reduce to C15 / C16; in the quick tier the prover's "
                       "leading-coefficient identities may stay undecided (counted as optional_undecided)")


def _w(run, tag, what):
    import json, os
    d = os.path.join(fw.OUT, "cex")
    os.makedirs(d, exist_ok=True)
    p = os.path.join(d, f"C01_{tag.replace('/', '_')}.json")
    json.dump({"property": "C01", "what": what}, open(p, "w"), indent=1)
    return p
