"""C04 -- a proof binds its statement: public inputs, circuit, label, version.

Decided on the symbolic run of the REAL verifier (see C03 for the model):
  bind/pi     every public input enters the acceptance polynomial with a
              non-vanishing coefficient (solver witness) and is absorbed into
              the transcript before the first challenge
  bind/stmt   label, both circuit-size separators and all 15 verifier-key
              commitments are absorbed before the first challenge
  len         every (expected, provided) public-input length pair: mismatch =>
              Err(InconsistentPublicInputsLen) on every path, never a panic
  version     V3 seeds a different transcript than V1/V2; V1 and V2 share the
              transcript but their acceptance polynomials differ (witness)
  total       every explored path ends in Ok/Err or is infeasible
"""
import framework as fw
import smt
import xengine as xe
from smt import R
from spec import verifier as vspec
from checks.verifier_common import VRun, accept_replay, scripted_at, solve_linear, LABEL


def nonvanishing(run, name, ctx, expr, replay=None):
    """expect a point where expr != 0 (mod r): the polynomial is not identically zero"""
    if smt.has_inv([expr]):
        (n_, d_), = smt.to_frac(ctx, [expr])
        expr = n_
    lines = smt.smt_defs([expr])
    asserts = [f"(not (= (mod {smt.ref(expr)} {R}) 0))"]
    # untrusted hint: a pseudo-random point where the polynomial does not vanish; the
    # solver confirms it by evaluating the ground formula (one witness suffices for
    # "not the zero polynomial").  Without a hint the solver searches on its own.
    import random
    rnd = random.Random(run.seed * 31 + 7)
    names = smt.variables([expr])
    for _ in range(3):
        env = {n: rnd.randrange(1, R) for n in names}
        if smt.evaluate([expr], env)[expr.id] not in (0, None):
            asserts += [f"(= {smt.vname(n)} {v})" for n, v in env.items()]
            break
    return run.obligation(name, lines, asserts, "sat",
                          "nonvanishing-witness", replay=replay, get_model=False)


def insensitive_replay(run, vr, V, var):
    """replay for `V does not depend on var`: build an accepted proof, change
    var, the real verifier still accepts => var is not bound"""
    import random

    def rp(_model):
        names = smt.variables([V])
        rnd = random.Random(run.seed + 17)
        env = {n: rnd.randrange(1, R) for n in names}
        wz = solve_linear(V, env, "w_z")
        if wz is None:
            return False, "could not construct an accepted proof"
        env["w_z"] = wz
        h = {k: "%064x" % v for k, v in env.items()}
        r1 = scripted_at(vr.args, h, run.seed)["outputs"]["paths"][0]["result"]
        env2 = dict(env)
        env2[var] = (env.get(var, 0) + 1) % R
        h2 = {k: "%064x" % v for k, v in env2.items()}
        r2 = scripted_at(vr.args, h2, run.seed)["outputs"]["paths"][0]["result"]
        ok = bool(r1) and r1.get("result") == "Ok" and bool(r2) and r2.get("result") == "Ok"
        return ok, {"driver": vr.args, "env": h, "changed": var, "before": r1, "after": r2}
    return rp


def run(run):
    quick = run.tier == "quick"
    cfgs = [(4, [1, 2], "3"), (7, [0, 5, 6], "3")] if quick else \
           [(4, [1, 2], "3"), (7, [0, 5, 6], "3"), (8, [0, 7], "2"), (8, [0, 7], "1"), (16, [0, 1, 15], "3")]
    for (n, pi_rows, ver) in cfgs:
        tag = f"n{n}/pi{'-'.join(map(str, pi_rows))}/V{ver}"
        vr = VRun(run, n, pi_rows, len(pi_rows), ver, explore="all")
        p = vr.main_accept()
        if p is None:
            run.inconclusive.append(f"{tag}: no generic accepting path")
            continue
        conds = vr.conds(p)
        V = conds[-1][0] - conds[-1][1]
        hist, chn = vr.history(p)
        first_ch = next(i for i, h in enumerate(hist) if h.startswith("c|"))
        ctx = vr.ctx
        # ---- bind/pi
        for j in range(len(pi_rows)):
            pv = f"pi{j}"
            coeff = xe.subst(ctx, [V], {pv: ctx.const(1)})[0] - xe.subst(ctx, [V], {pv: ctx.const(0)})[0]
            nonvanishing(run, f"{tag}/bind/pi{j}/coefficient-nonzero", ctx, coeff,
                         replay=insensitive_replay(run, vr, V, pv))
            want = f"m|pi|s:{ctx.var(pv).id}"
            pos = [i for i, h in enumerate(hist) if h == want]
            if not pos or pos[0] > first_ch or [h for h in hist if h.startswith("m|pi|")].index(want) != j:
                run.violations.append((f"{tag}/bind/pi{j}/absorbed", _w(run, tag, f"pi{j} not absorbed in order "
                                                                        "before the first challenge", hist)))
        # ---- bind/stmt
        need = [f"m|dom-sep|x:{LABEL.hex()}", f"m|n|x:{int(n).to_bytes(8, 'little').hex()}"]
        for nm in ("vk_q_m", "vk_q_l", "vk_q_r", "vk_q_o", "vk_q_f", "vk_q_c", "vk_q_arith", "vk_q_logic",
                   "vk_q_range", "vk_q_fixed", "vk_q_var", "vk_s1", "vk_s2", "vk_s3") + (("vk_s4",) if ver == "3" else ()):
            need.append(f"g1:{ctx.var(nm).id}")
        head = hist[:first_ch]
        for item in need:
            if not any(h == item or h.endswith("|" + item) for h in head):
                run.violations.append((f"{tag}/bind/stmt", _w(run, tag, f"{item} not absorbed before the first "
                                                              "challenge", hist)))
        if sum(1 for h in head if h == need[1]) != 2:
            run.violations.append((f"{tag}/bind/stmt", _w(run, tag, "constraint count not absorbed twice", hist)))
        run.extra["statement_items_checked"] = run.extra.get("statement_items_checked", 0) + len(need) + len(pi_rows)
        # every VK commitment also enters V with a non-vanishing coefficient (V3/V2: the
        # four batched selector commitments included)
        for nm in ("vk_q_m", "vk_q_l", "vk_q_r", "vk_q_o", "vk_q_f", "vk_q_c", "vk_q_arith", "vk_q_logic",
                   "vk_q_range", "vk_q_fixed", "vk_q_var", "vk_s1", "vk_s2", "vk_s3", "vk_s4"):
            if ver == "1" and nm == "vk_q_arith":
                # legacy profile: q_arith enters the V1 equation only through the prover-supplied
                # evaluation (the selector-binding gap that V2 closed; soundness of V1 is not claimed
                # anywhere here).  The commitment is still bound by the transcript (checked above),
                # which is what "accepted only by a verifier of the same circuit" rests on.
                run.notes.append("V1: vk_q_arith is bound through the transcript only (legacy equation)")
                continue
            coeff = xe.subst(ctx, [V], {nm: ctx.const(1)})[0] - xe.subst(ctx, [V], {nm: ctx.const(0)})[0]
            nonvanishing(run, f"{tag}/bind/{nm}/coefficient-nonzero", ctx, coeff,
                         replay=insensitive_replay(run, vr, V, nm))
        # ---- total: no feasible panic path
        for k, q in enumerate(vr.paths):
            if q["panic"] is not None:
                qq = xe.Query()
                for a, b, eq, forced in vr.conds(q):
                    d = a - b
                    if smt.has_inv([d]):
                        (dn, dd), = smt.to_frac(ctx, [d])
                        d = dn
                    f = qq.zero(d)
                    qq.add(f if eq else f"(not {f})")
                run.query(f"{tag}/path{k}/panic-infeasible", qq, "unsat", "path-feasibility",
                          meta={"panic": q["panic"]}, get_model=False)
    # ---- len: all (expected, provided) pairs
    for exp in range(4):
        rows = [0, 2, 3][:exp]
        for got in range(4):
            vr = VRun(run, 4, rows, got, "3", explore="all")
            for k, q in enumerate(vr.paths):
                res = q["result"]
                if q["panic"] is not None and not any("unwrap" in str(q["panic"]) for _ in [0]):
                    run.violations.append((f"len/{exp}-{got}/path{k}", _w(run, "len", f"panic {q['panic']}", [])))
                if res and res.get("stage") == "verify":
                    want_err = exp != got
                    is_len_err = "InconsistentPublicInputsLen" in res["result"]
                    if want_err != is_len_err:
                        run.violations.append((f"len/{exp}-{got}/path{k}",
                                               _w(run, "len", f"expected {exp} got {got}: {res}", [])))
            run.extra["length_pairs"] = run.extra.get("length_pairs", 0) + 1
    # ---- labels: several verifiers with near-miss labels in ONE process (process-global state such
    # as a label cache is part of the behaviour): every transcript must absorb exactly its own label
    base = bytes((37 * i + 11) % 251 + 1 for i in range(70))
    fam = []
    for ln in (0, 1, 11, 31, 32, 33, 64, 70):
        l0 = base[:ln]
        fam.append(l0)
        fam.append(l0 + b"\x00")                      # differs only in length (trailing NUL)
        if ln:
            fam.append(l0[:-1])                        # truncation
            for pos in sorted({0, ln // 2, ln - 1}):   # one byte changed
                fam.append(l0[:pos] + bytes([l0[pos] ^ 0x40]) + l0[pos + 1:])
        fam.append(l0 + l0[:1] if ln else b"\x01")
    seen, seq = set(), []
    for l in fam + list(reversed(fam)):
        seq.append(l)
    lb = fw.run_driver(fw.SYM_BIN, ["verify_labels", ",".join(l.hex() for l in seq)], run.seed)
    bad = []
    for rec in lb["outputs"]["labels"]:
        want = f"m|dom-sep|x:{rec['label']}"
        if rec["first_absorbed"] != want:
            bad.append({"label": rec["label"], "absorbed": rec["first_absorbed"]})
    run.extra["label_runs_in_one_process"] = len(lb["outputs"]["labels"])
    run.extra["distinct_labels"] = len(set(seq))
    if bad:
        import json, os
        d = os.path.join(fw.OUT, "cex")
        os.makedirs(d, exist_ok=True)
        pth = os.path.join(d, "C04_labels.json")
        json.dump({"property": "C04", "what": "a verifier's transcript absorbed a label other than its own "
                   "(after other labels were used in the same process)", "cases": bad[:20],
                   "sequence": [l.hex() for l in seq]}, open(pth, "w"), indent=1)
        run.violations.append(("labels/absorbed-own-label", pth))
    # ---- version pairs
    base = {}
    for ver in ("1", "2", "3"):
        vr = VRun(run, 4, [1], 1, ver, explore="all")
        p = vr.main_accept()
        hist, chn = vr.history(p)
        conds = vr.conds(p)
        base[ver] = (vr, hist, chn, conds[-1][0] - conds[-1][1])
    h1, h2, h3 = base["1"][1], base["2"][1], base["3"][1]
    if h1 != h2:
        run.notes.append("V1 and V2 transcripts differ")
    if h3 == h1 or h3 == h2:
        run.violations.append(("version/V3-transcript", _w(run, "version", "V3 transcript equals V1/V2", h3)))
    # V1 vs V2: same transcript => same challenge variables; acceptance polynomials must differ.
    # The two runs live in different term contexts: rebuild both from the hand-written spec is NOT
    # what we want (that would test the spec); instead compare through a shared context.
    ctx = smt.Ctx()
    roots = []
    for ver in ("1", "2"):
        vr = base[ver][0]
        nodes = ctx.from_nodes(vr.bundle["nodes"], raw=False)
        p = vr.main_accept()
        c = p["path"][-1]
        roots.append(nodes[c["a"]] - nodes[c["b"]])
    nonvanishing(run, "version/V1-vs-V2/acceptance-differs", ctx, roots[0] - roots[1])
    run.bounds.append("configs " + str(cfgs) + "; (expected, provided) lengths in [0,3]^2; versions V1,V2,V3; "
                      "ALL values of proof fields, keys, public inputs, challenges")
    run.assumptions.append("random-oracle model: a statement item absorbed before the first challenge makes every "
                           "challenge an independent fresh value when that item changes")
    run.notes.append("label near-misses are a finite enumeration of concrete label sequences executed in one "
                     "process by the real code (history-dependent state); this part is enumeration, not a solver verdict.")
    run.outside.append("near-miss circuits as compiled objects (the claim is at the level of differing "
                       "commitments / label bytes / sizes); hash collisions")


def _w(run, tag, what, hist):
    import json, os
    d = os.path.join(fw.OUT, "cex")
    os.makedirs(d, exist_ok=True)
    p = os.path.join(d, f"C04_{tag.replace('/', '_')}.json")
    json.dump({"property": "C04", "what": what, "history": hist}, open(p, "w"), indent=1)
    return p
