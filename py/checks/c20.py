"""C20 -- KZG commitments and openings are exact.

The real `PublicParameters::setup` (RNG scripted to symbolic draws), `trim`,
`CommitKey::commit`, `compute_aggregate_witness`, `AggregateProof::flatten` and
`OpeningKey::batch_check` run on the symbolic field with groups in
discrete-log form; z3 proves the SRS structure, linearity of commitments, the
opening equation and that every evaluation is bound.
"""
import framework as fw
import smt
import sweep
import xengine as xe
from smt import R
from checks.c04 import nonvanishing


def load(run, args, extra_env=None):
    sb = fw.run_driver(fw.SYM_BIN, ["kzg"] + [str(a) for a in args], run.seed, extra_env=extra_env)
    ctx = smt.Ctx()
    nodes = ctx.from_nodes(sb["nodes"])
    return sb, ctx, nodes


def run(run):
    quick = run.tier == "quick"
    degs = [1, 2, 4] if quick else [1, 2, 3, 4, 8]
    run.add_functions(["PublicParameters::setup", "util::random_nonzero_bls_scalar", "util::powers_of",
                       "util::slow_multiscalar_mul_single_base", "PublicParameters::trim", "CommitKey::truncate",
                       "CommitKey::commit", "CommitKey::compute_aggregate_witness", "Polynomial::ruffini",
                       "AggregateProof::flatten", "OpeningKey::try_new", "OpeningKey::batch_check",
                       "batch_challenge", "msm_variable_base (dlog model)"])
    # ---- SRS structure: powers of ONE secret, matching G2 elements, exactly 3 draws of 64 bytes
    for deg in degs:
        sb, ctx, nodes = load(run, ["setup", deg])
        p = sb["outputs"]["setup"]["paths"][0]
        res = p["result"]
        x, gs, hs = ctx.var("rng0"), ctx.var("rng1"), ctx.var("rng2")
        pw = [nodes[i] for i in res["powers"]]
        if len(pw) != deg + 6 + 1:
            run.violations.append((f"setup/deg{deg}/length", _w(run, f"setup{deg}", f"{len(pw)} powers")))
        for i, e in enumerate(pw):
            run.identity(f"setup/deg{deg}/power{i}", e, gs * (x ** i))
        run.identity(f"setup/deg{deg}/g", nodes[res["g"]], gs)
        run.identity(f"setup/deg{deg}/h", nodes[res["h"]], hs)
        run.identity(f"setup/deg{deg}/x_h", nodes[res["x_h"]], hs * x)
        log = sb["outputs"]["rng_log"]
        if [l[0] for l in log] != [64, 64, 64]:
            run.violations.append((f"setup/deg{deg}/rng", _w(run, f"setup{deg}", f"rng log {log}")))
    # ---- commitments: linear image of the coefficient vector; beyond the key degree => Err
    for deg in degs:
        klen = None
        for ln in sorted({0, 1, 2, deg + 6, deg + 7, deg + 8}):
            sb, ctx, nodes = load(run, ["commit", deg, ln])
            P = sb["outputs"]["commit"]
            x, gs = ctx.var("rng0"), ctx.var("rng1")
            c = [ctx.var(f"c{i}") for i in range(ln)]
            spec = sum((c[i] * gs * (x ** i) for i in range(ln)), ctx.const(0))
            for k_, p in enumerate(P["paths"]):
                if p["panic"] is not None:
                    q = xe.Query()
                    for cnd in p["path"]:
                        f = q.zero(nodes[cnd["a"]] - nodes[cnd["b"]])
                        q.add(f if cnd["eq"] else f"(not {f})")
                    run.query(f"commit/deg{deg}/len{ln}/p{k_}/panic-infeasible", q, "unsat", "path-feasibility",
                              get_model=False, meta={"panic": p["panic"]})
                    continue
                res = p["result"]
                klen = res["key_len"]
                # effective degree on this path: leading coefficients decided zero are dropped
                sub = {}
                for cnd in p["path"]:
                    a_, b_ = nodes[cnd["a"]], nodes[cnd["b"]]
                    if cnd["eq"] and a_.op == "v" and b_.op == "c" and b_.args[0] == 0:
                        sub[a_.args[0]] = b_
                eff = ln
                while eff > 0 and f"c{eff - 1}" in sub:
                    eff -= 1
                if "err" in res:
                    if eff - 1 <= klen - 1 or "PolynomialDegreeTooLarge" not in res["err"]:
                        run.violations.append((f"commit/deg{deg}/len{ln}/p{k_}",
                                               _w(run, f"commit{deg}_{ln}", f"unexpected error {res} (effective len {eff}, key {klen})")))
                    continue
                if eff > klen:
                    run.violations.append((f"commit/deg{deg}/len{ln}/p{k_}",
                                           _w(run, f"commit{deg}_{ln}", f"commit beyond key degree succeeded")))
                    continue
                got = xe.subst(ctx, [nodes[res["commitment"]]], sub)[0]
                want = xe.subst(ctx, [spec], sub)[0]
                run.identity(f"commit/deg{deg}/len{ln}/p{k_}", got, want)
        if klen is not None and klen != deg + 6 + 1 and deg > 1:
            run.notes.append(f"trim({deg}) keeps {klen} powers")
    # ---- openings: honest aggregate witness passes, and the acceptance polynomial is the textbook one
    shapes = [(2, 1, 2), (2, 2, 3), (4, 3, 3)] if quick else [(2, 1, 2), (2, 2, 3), (4, 3, 3), (4, 2, 5), (8, 2, 4)]
    for deg, npol, ln in shapes:
        # flips are limited to the leading-coefficient tests of the input polynomials (the first
        # npol*ln symbolic comparisons): every pattern of zero / shorter polynomials is explored
        sb, ctx, nodes = load(run, ["open", deg, npol, ln], extra_env={"VERIF_FLIP_DEPTH": str(npol * ln), "VERIF_MAX_PATHS": "1100"})
        P_open = sb["outputs"]["open"]
        if not P_open.get("complete", True):
            run.inconclusive.append(f"open/deg{deg}/polys{npol}/len{ln}: path budget exceeded")
        x, gs = ctx.var("rng0"), ctx.var("rng1")
        z, v = ctx.var("z"), ctx.var("v")
        polys = [[ctx.var(f"p{j}_{i}") for i in range(ln)] for j in range(npol)]
        zero = ctx.const(0)
        run.extra["open_paths"] = run.extra.get("open_paths", 0) + len(P_open["paths"])
        for k_, p in enumerate(P_open["paths"]):
            tag = f"open/deg{deg}/polys{npol}/len{ln}/p{k_}"
            # paths: which (leading) coefficients were decided zero (a zero polynomial included)
            sub = {}
            other = False
            for cnd in p["path"]:
                a_, b_ = nodes[cnd["a"]], nodes[cnd["b"]]
                if cnd["forced"]:
                    continue
                if cnd["eq"]:
                    if a_.op == "v" and b_.op == "c" and b_.args[0] == 0:
                        sub[a_.args[0]] = b_
                    else:
                        other = True
            if other:
                continue   # a non-coefficient coincidence (e.g. v == 0): not part of this family
            if p["panic"] is not None:
                q = xe.Query()
                for cnd in p["path"]:
                    f = q.zero(nodes[cnd["a"]] - nodes[cnd["b"]])
                    q.add(f if cnd["eq"] else f"(not {f})")
                run.query(f"{tag}/panic-infeasible", q, "unsat", "path-feasibility", get_model=False,
                          meta={"panic": p["panic"]})
                continue
            res = p["result"]
            S = lambda e: xe.subst(ctx, [e], sub)[0]
            W = [S(nodes[i]) for i in res["witness_coeffs"]]
            agg = [S(sum(((v ** j) * polys[j][k] for j in range(npol)), zero)) for k in range(ln)]
            aggz = sum((agg[k] * (z ** k) for k in range(ln)), zero)
            for k in range(ln):
                lhs = (W[k - 1] if 0 <= k - 1 < len(W) else zero) - z * (W[k] if k < len(W) else zero)
                rhs = agg[k] - (aggz if k == 0 else zero)
                run.identity(f"{tag}/witness-relation/coeff{k}", lhs, rhs)
            for k in range(ln, len(W) + 1):
                lhs = (W[k - 1] if 0 <= k - 1 < len(W) else zero) - z * (W[k] if k < len(W) else zero)
                run.identity(f"{tag}/witness-relation/coeff{k}", lhs, zero)
            for j in range(npol):
                run.identity(f"{tag}/eval{j}", S(nodes[res["evals"][j]]),
                             S(sum((polys[j][k] * (z ** k) for k in range(ln)), zero)))
            run.identity(f"{tag}/flat-eval", S(nodes[res["flat_eval"]]),
                         S(sum(((v ** j) * nodes[res["evals"][j]] for j in range(npol)), zero)))
            run.identity(f"{tag}/flat-comm", S(nodes[res["flat_comm"]]),
                         S(sum(((v ** j) * nodes[res["comms"][j]] for j in range(npol)), zero)))
            # the honest opening is accepted on every path (zero polynomials included)
            if res["check"] != "Ok(())":
                run.violations.append((f"{tag}/honest-accepted",
                                       _w(run, tag, f"honest opening rejected: {res['check']} (zero coefficients: {sorted(sub)})")))
            forced = [c for c in p["path"] if c["forced"]]
            for k2, c in enumerate(forced):
                run.identity(f"{tag}/honest-accepted/identity{k2}", S(nodes[c["a"]]), S(nodes[c["b"]]))
    # ---- batch_check on arbitrary triples: acceptance polynomial == textbook; every evaluation bound
    for k in ([1, 2, 3] if quick else [1, 2, 3, 4, 5]):
        sb, ctx, nodes = load(run, ["batch", k])
        P = sb["outputs"]["batch"]
        acc = [p for p in P["paths"] if p["result"] and p["result"]["check"] == "Ok(())"]
        main = None
        for p in acc:
            d = p["decisions"]
            if d and d[-1] and not any(d[:-1]):
                main = p
        tag = f"batch/k{k}"
        if main is None:
            run.inconclusive.append(f"{tag}: no generic accepting path")
            continue
        c = main["path"][-1]
        V = nodes[c["a"]] - nodes[c["b"]]
        ev = [e for e in main["result"]["events"] if isinstance(e, dict)]
        if len(ev) != 1:
            run.violations.append((f"{tag}/challenge", _w(run, tag, f"{len(ev)} challenges drawn")))
            continue
        u = ctx.var(ev[0]["challenge"])
        g, h, xh = ctx.var("ok_g"), ctx.var("ok_h"), ctx.var("ok_xh")
        spec = ctx.const(0)
        for j in range(k):
            w, e, cm, zj = ctx.var(f"w{j}"), ctx.var(f"e{j}"), ctx.var(f"c{j}"), ctx.var(f"z{j}")
            spec = spec + (u ** j) * ((cm + zj * w - e * g) * h - w * xh)
        def batch_replay(model, V=V, spec=spec, k=k, forced=None):
            """concrete batches (i) accepted by the real polynomial, (ii) accepted by the spec: the real
            batch_check (concrete arithmetic, scripted challenge) must agree with the spec on both"""
            import random
            from checks.verifier_common import solve_linear, scripted_at
            rnd = random.Random(run.seed * 31 + k)
            names = smt.variables([V, spec])
            trials = []
            for t in range(3):
                env = {n: rnd.randrange(2, R) for n in names}
                env.update(forced or {})
                for which, root in (("real", V), ("spec", spec)):
                    e0 = solve_linear(root, env, "e0")
                    if e0 is None:
                        continue
                    e2 = dict(env, e0=e0)
                    henv = {n: "%064x" % v for n, v in e2.items()}
                    rb = scripted_at(["kzg", "batch", str(k)], henv, run.seed)
                    res = rb["outputs"]["batch"]["paths"][0]["result"]
                    got_ok = bool(res) and res.get("check") == "Ok(())"
                    spec_ok = smt.evaluate([spec], e2)[spec.id] == 0
                    trials.append({"constructed_for": which, "batch_check": res and res.get("check"), "spec_accepts": spec_ok})
                    if got_ok != spec_ok:
                        return True, {"env": henv, "driver": ["kzg", "batch", str(k)], "trials": trials}
            return False, {"trials": trials}
        run.identity(f"{tag}/acceptance==spec", V, spec, replay=batch_replay)
        # every OTHER accepting path (degenerate inputs: identity witnesses, zero values, ...): under the
        # path's `variable == constant` conditions its final comparison is still the textbook equation
        for pi_, p in enumerate(acc):
            if p is main:
                continue
            mp, odd = {}, False
            for c_ in p["path"][:-1]:
                a_, b_ = nodes[c_["a"]], nodes[c_["b"]]
                if not c_["eq"]:
                    continue
                if a_.op == "v" and b_.op == "c":
                    mp[a_.args[0]] = b_
                elif b_.op == "v" and a_.op == "c":
                    mp[b_.args[0]] = a_
                else:
                    odd = True
            last = p["path"][-1]
            Vp = nodes[last["a"]] - nodes[last["b"]]
            if odd or not last["eq"]:
                # stated, not decided: such a path is listed in the evidence (extra.degenerate_paths_not_compared)
                run.extra.setdefault("degenerate_paths_not_compared", []).append(f"{tag}/path{pi_}")
                continue
            Vs, Ss = xe.subst(ctx, [Vp, spec], mp)
            forced = {n_: int(c_.args[0]) % R for n_, c_ in mp.items()}
            run.identity(f"{tag}/degenerate-path{pi_}/acceptance==spec under {sorted(mp)}", Vs, Ss,
                         replay=lambda m_, Vs=Vs, forced=forced: batch_replay(m_, V=Vs, forced=forced))
        for j in range(k):
            for nm in (f"e{j}", f"w{j}", f"c{j}", f"z{j}"):
                coeff = xe.subst(ctx, [V], {nm: ctx.var(nm) + 1})[0] - V
                nonvanishing(run, f"{tag}/bound/{nm}", ctx, coeff)
        # transcript-bound challenge: batch length, every point, commitment, evaluation, witness absorbed
        hist = ev[0]["history"]
        need = []
        for j in range(k):
            need += [f"s:{ctx.var(f'z{j}').id}", f"s:{ctx.var(f'e{j}').id}", f"g1:{ctx.var(f'w{j}').id}",
                     f"g1:{ctx.var(f'c{j}').id}"]
        missing = [n_ for n_ in need if not any(hh.endswith("|" + n_) for hh in hist)]
        if missing or not any(int(k).to_bytes(8, "little").hex() in hh for hh in hist):
            run.violations.append((f"{tag}/challenge-binds-batch", _w(run, tag, f"missing {missing}; history {hist}")))
        # every path ends in Ok/Err; panics infeasible
        for k_, p in enumerate(P["paths"]):
            if p["panic"] is not None:
                q = xe.Query()
                for cnd in p["path"]:
                    f = q.zero(nodes[cnd["a"]] - nodes[cnd["b"]])
                    q.add(f if cnd["eq"] else f"(not {f})")
                run.query(f"{tag}/p{k_}/panic-infeasible", q, "unsat", "path-feasibility", get_model=False)
    # empty / mismatched batches
    for k, kp in ((0, 0), (1, 2), (2, 1)):
        sb, ctx, nodes = load(run, ["batch", k, kp])
        for p in sb["outputs"]["batch"]["paths"]:
            if p["panic"] is not None or (p["result"] and "key Err" not in p["result"]["check"]
                                          and "ProofVerificationError" not in p["result"]["check"]):
                run.violations.append((f"batch/mismatch/{k}-{kp}", _w(run, f"batch{k}_{kp}", str(p)[:500])))
    run.bounds.append(f"SRS degrees {degs}; commitments of lengths 0,1,2,deg+6..deg+8; aggregated openings {shapes}; "
                      "batches of size 1..3 (thorough 1..5) plus empty/mismatched; ALL values of the secret, bases, "
                      "coefficients, points, evaluations, witnesses and challenges")
    run.outside.append("trim/truncate capacity arithmetic for all sizes is decided in C01/C15 (bit-vector "
                       "translation); security of KZG (binding) is the standard assumption")


def _w(run, tag, what):
    import json, os
    d = os.path.join(fw.OUT, "cex")
    os.makedirs(d, exist_ok=True)
    p = os.path.join(d, f"C20_{tag.replace('/', '_')}.json")
    json.dump({"property": "C20", "what": what}, open(p, "w"), indent=1)
    return p
