"""C06 -- zero-knowledge masking: every opened polynomial is freshly blinded.

The REAL `Compiler::compile_with_circuit` and `Prover::prove` run on a small
concrete circuit and witness with
  * a symbolic SRS (secret x, bases gs, hs from the real `setup`), so a
    commitment to p is the term gs*p(x): an identity in x is a coefficient-wise
    identity of polynomials;
  * the 14 blinders symbolic (the RNG is scripted and logged);
  * Fiat-Shamir challenges scripted to seed-derived concrete values.
Every prover output is then a polynomial in (x, blind0..13) with concrete
coefficients.  For each output and each blinder the dependence is extracted
structurally and the solver proves it equal to the prescribed mask.
"""
import random

import framework as fw
import smt
import xengine as xe
from smt import R
from spec import verifier as vspec

WIRES = [("a_comm", "a_eval", "a_w_eval"), ("b_comm", "b_eval", "b_w_eval"), ("c_comm", "c_eval", None),
         ("d_comm", "d_eval", "d_w_eval")]


def coeffs_in(ctx, root, name):
    parts = xe.poly_in(ctx, root, name)
    return parts


def run(run):
    # full term analysis on the two small circuits; the custom-gate circuit (256-point domain) and the
    # 4096-point domain are analysed through blinder dependency sets (large_domain_dependencies)
    kinds = [0, 1]
    for kind in kinds:
        sb = fw.run_driver(fw.SYM_BIN, ["prove", str(kind)], run.seed)
        run.add_functions(sb["meta"]["functions"])
        o = sb["outputs"]
        tag = f"circuit{kind}"
        if "error" in o:
            run.inconclusive.append(f"{tag}: prover returned {o['error']}")
            continue
        ctx = smt.Ctx()
        nodes = ctx.from_nodes(sb["nodes"])
        n = 1
        while n < o["n"]:
            n *= 2
        w = vspec.root_of_unity(n)
        ch = {k: int(v, 16) for k, v in o["challenges"].items()}
        z = ch["z_challenge"]
        x, gs = ctx.var("srs0"), ctx.var("srs1")
        B = [ctx.var(f"blind{i}") for i in range(14)]
        bn = [f"blind{i}" for i in range(14)]
        comm = {k: nodes[v] for k, v in o["comms"].items()}
        ev = {k: nodes[v] for k, v in o["evals"].items()}
        # ---- exactly 14 draws of 64 bytes, nothing else
        log = o["rng_log"]
        if len(log) != 14 or any(l[0] != 64 for l in log):
            run.violations.append((f"{tag}/rng-draws", _w(run, tag, f"rng log {log}")))
        zh_x = x ** n - 1
        zh_z = (pow(z, n, R) - 1) % R
        zw = z * w % R

        def dep(root, allowed, what):
            """the blinders `root` depends on must be exactly `allowed` (structural)"""
            have = {v for v in smt.variables([root]) if v.startswith("blind")}
            return have

        def mask_check(name, root, blinders, mask_of, only=True):
            have = dep(root, blinders, name)
            for k_, bname in enumerate(blinders):
                parts = coeffs_in(ctx, root, bname)
                if set(parts.keys()) - {0, 1}:
                    # higher powers must vanish identically
                    for p_, c_ in parts.items():
                        if p_ > 1:
                            run.identity(f"{tag}/{name}/{bname}/power{p_}-absent", c_, ctx.const(0))
                got = parts.get(1, ctx.const(0))
                run.identity(f"{tag}/{name}/mask/{bname}", got, mask_of(k_))
                # translator-style validation of the structural split (random evaluation)
                _validate_split(run, ctx, root, parts, bname)
            return have

        # wires: a(X) = w(X) + (b_{2k} + b_{2k+1} X) * Z_H(X)
        for k, (cm, e_, ew) in enumerate(WIRES):
            bl = [bn[2 * k], bn[2 * k + 1]]
            have = mask_check(cm, comm[cm], bl, lambda j: gs * (x ** j) * zh_x)
            if have != set(bl):
                run.violations.append((f"{tag}/{cm}/blinders", _w(run, tag, f"{cm} depends on {sorted(have)}")))
            mask_check(e_, ev[e_], bl, lambda j: ctx.const(pow(z, j, R) * zh_z % R))
            if ew:
                mask_check(ew, ev[ew], bl, lambda j: ctx.const(pow(zw, j, R) * zh_z % R))
        # permutation polynomial: z(X) = z0(X) + (b8 + b9 X + b10 X^2) Z_H(X)
        bl = bn[8:11]
        have = mask_check("z_comm", comm["z_comm"], bl, lambda j: gs * (x ** j) * zh_x)
        if have != set(bl):
            run.violations.append((f"{tag}/z_comm/blinders", _w(run, tag, f"z_comm depends on {sorted(have)}")))
        mask_check("z_eval", ev["z_eval"], bl, lambda j: ctx.const(pow(zw, j, R) * zh_z % R))
        # quotient shares: +b11 X^n | -b11 + b12 X^n | -b12 + b13 X^n | -b13
        xn = x ** n
        share_masks = {
            "t_low": {bn[11]: gs * xn},
            "t_mid": {bn[11]: -gs, bn[12]: gs * xn},
            "t_high": {bn[12]: -gs, bn[13]: gs * xn},
            "t_fourth": {bn[13]: -gs},
        }
        for sh, masks in share_masks.items():
            for bname in bn[11:14]:
                parts = coeffs_in(ctx, comm[sh], bname)
                want = masks.get(bname, ctx.const(0))
                run.identity(f"{tag}/{sh}/mask/{bname}", parts.get(1, ctx.const(0)), want)
                for p_, c_ in parts.items():
                    if p_ > 1:
                        run.identity(f"{tag}/{sh}/{bname}/power{p_}-absent", c_, ctx.const(0))
                _validate_split(run, ctx, comm[sh], parts, bname)
        # every commitment / wire+z evaluation depends on randomness: some blinder coefficient is non-zero
        from checks.c04 import nonvanishing
        for name, root in list(comm.items()) + [(k, ev[k]) for k in ("a_eval", "b_eval", "c_eval", "d_eval",
                                                                      "a_w_eval", "b_w_eval", "d_w_eval", "z_eval")]:
            have = sorted(v for v in smt.variables([root]) if v.startswith("blind"))
            if not have:
                run.violations.append((f"{tag}/{name}/unmasked", _w(run, tag, f"{name} does not depend on any blinder")))
                continue
            # the coefficient of (the first power of) some blinder is not the zero polynomial;
            # take the blinder whose coefficient term is smallest
            best = None
            for bname in have:
                c1 = coeffs_in(ctx, root, bname).get(1)
                if c1 is None:
                    continue
                sz = len(smt.topo([c1]))
                if best is None or sz < best[0]:
                    best = (sz, bname, c1)
            if best is None:
                run.violations.append((f"{tag}/{name}/unmasked", _w(run, tag, f"{name}: no linear blinder term")))
                continue
            nonvanishing(run, f"{tag}/{name}/depends-on-randomness/{best[1]}", ctx, best[2])
        run.extra["outputs_checked"] = run.extra.get("outputs_checked", 0) + len(comm) + 8
        zero_blinder_paths(run, kind, sb, ctx, nodes, comm, ev, tag)
        if o.get("verified") != "Ok(())":
            run.notes.append(f"{tag}: real verifier on the symbolic proof: {o.get('verified')}")
    large_domain_dependencies(run)
    if run.tier != "quick":
        large_domain_dependencies(run, kind=2, tag="circuit2-custom-gates-domain256")
    run.bounds.append("one circuit with 2104 constraints (domain 4096): blinder-dependency sets of every proof "
                      "element (structural, not a solver verdict)")
    run.bounds.append(f"circuits {kinds} (tiny concrete circuits, concrete witness), one scripted challenge "
                      "assignment per seed; ALL values of the 14 blinders and of the SRS secret/bases")
    run.assumptions.append("structural coefficient extraction with respect to one variable (a syntactic ring "
                           "transformation of the recorded term DAG) is validated by evaluation at random points "
                           "on every run")
    run.outside.append("all circuits / all witnesses / all challenge values; statistical independence of the masks "
                       "is the standard argument (uniform blinders, fixed non-zero mask polynomials)")


def two_run_replay(run, kind, draw, v1, v2, fields):
    """Replay on concrete values (real prover code, dependency copy in concrete mode, scripted
    oracle): two proving runs whose RNG streams differ ONLY in draw `draw` (values v1, v2) must
    differ in `fields`; reproduced iff they do not."""
    def rp(_model):
        from checks.verifier_common import scripted_at
        import random
        rnd = random.Random(run.seed + 99)
        base = {f"blind{i}": "%064x" % rnd.randrange(2, R) for i in range(14)}
        base.update({f"srs{i}": "%064x" % rnd.randrange(2, R) for i in range(3)})
        outs = []
        for v in (v1, v2):
            env = dict(base)
            env[f"blind{draw}"] = "%064x" % v
            o = scripted_at(["prove", str(kind)], env, run.seed)["outputs"]
            outs.append(o)
        same = [f for f in fields if outs[0].get("comms", {}).get(f) == outs[1].get("comms", {}).get(f)]
        return len(same) == len(fields) and len(fields) > 0, {"draw": draw, "values": [hex(v1), hex(v2)],
                                                               "fields_identical": same, "kind": kind}
    return rp


def large_domain_dependencies(run, kind=3, tag="circuit3-domain4096"):
    """Domain of 4096 points (the size from which FFTs and wire blinding take their parallel paths):
    the real prover runs with all 14 blinders symbolic; reported per proof element: the set of
    blinders it depends on (structural reachability in the term arena; the 9M-node term graph is
    not handed to the solver)."""
    sb = fw.run_driver(fw.SYM_BIN, ["prove", str(kind)], run.seed, extra_env={"VERIF_DEPS_ONLY": "1", "RAYON_NUM_THREADS": "4"})
    o = sb["outputs"]
    if "error" in o or "deps" not in o:
        run.violations.append((f"{tag}/prover", _w(run, tag, f"prover: {o.get('error')}")))
        return
    want = {"a_comm": {0, 1}, "b_comm": {2, 3}, "c_comm": {4, 5}, "d_comm": {6, 7}, "z_comm": {8, 9, 10}}
    for name, exp in want.items():
        got = {int(v[5:]) for v in o["deps"][name]}
        if got != exp:
            missing = sorted(exp - got)
            f = _w(run, f"{tag}/{name}", f"{name} depends on blinders {sorted(got)}, prescribed {sorted(exp)}")
            rp = two_run_replay(run, kind, missing[0] if missing else sorted(got)[0], 3, 5, [name])
            ok, det = (rp({}) if missing else (True, {}))
            if ok:
                run.violations.append((f"{tag}/{name}/blinders", f))
            else:
                run.inconclusive.append(f"{tag}/{name}: dependency set {sorted(got)} but the two-run replay did not reproduce")
    for k_, name in ((11, "t_low"), (12, "t_mid"), (13, "t_high")):
        got = {int(v[5:]) for v in o["deps"][name]}
        if k_ not in got:
            run.violations.append((f"{tag}/{name}/blinders", _w(run, f"{tag}/{name}", f"{name} does not depend on draw {k_}")))
    for name in ("a_eval", "b_eval", "c_eval", "d_eval", "z_eval"):
        if not o["deps"][name]:
            run.violations.append((f"{tag}/{name}/unmasked", _w(run, f"{tag}/{name}", f"{name} depends on no blinder")))
    run.extra[f"{tag}/nodes"] = o.get("nodes_in_arena")
    run.extra[f"{tag}/constraints"] = o.get("n")


def zero_blinder_paths(run, kind, sb, ctx, nodes, comm, ev, tag):
    """The mask must be a function of the draw without case distinction: for each of the 14 draws,
    the prover is re-run with that draw equal to the concrete scalar zero (all other draws symbolic);
    every commitment must equal the generic commitment with that blinder set to zero (Type I)."""
    targets = [(k, f"blind{k}", 0) for k in range(14)]
    run.extra[f"{tag}/zero-draw-runs"] = len(targets)
    for idx, bname, cval in targets:
        sb2 = fw.run_driver(fw.SYM_BIN, ["prove", str(kind)], run.seed, extra_env={"VERIF_ZERO_BLINDERS": str(idx)})
        o2 = sb2["outputs"]
        t2 = f"{tag}/path-{bname}=={cval}"
        if "error" in o2:
            run.violations.append((t2, _w(run, tag, f"{bname} == {cval}: prover returned {o2['error']}")))
            continue
        log2 = o2.get("rng_log", [])
        if len(log2) != 14 or any(l[0] != 64 for l in log2):
            # a zero draw changes how much randomness is consumed (rejection sampling / re-draw):
            # replayed on the unpatched build with the same scripted stream
            rb = fw.run_driver(fw.REAL_BIN, ["prove", str(kind)], run.seed, extra_env={"VERIF_ZERO_BLINDERS": str(idx)})
            rlog = rb["outputs"].get("rng_log", [])
            bad = len(rlog) != 14 or any(l[0] != 64 for l in rlog)
            path = _w(run, f"{tag}/{bname}-draws", {"what": f"draw {idx} == 0: the prover consumes {len(log2)} draws instead of 14",
                                                   "symbolic_rng_log": log2, "real_rng_log": rlog, "replayed": bad,
                                                   "driver": ["prove", str(kind)], "env": {"VERIF_ZERO_BLINDERS": str(idx)}})
            if bad:
                run.violations.append((f"{t2}/rng-draws", path))
            else:
                run.inconclusive.append(f"{t2}: symbolic run drew {len(log2)} times, the real build 14")
            continue
        ctx2 = smt.Ctx()
        n2 = ctx2.from_nodes(sb2["nodes"])
        # the generic outputs, re-created in the second context, with the blinder substituted
        def port(e):
            memo = {}
            for x_ in smt.topo([e]):
                if x_.op == "v":
                    memo[x_.id] = ctx2.const(cval) if x_.args[0] == bname else ctx2.var(x_.args[0])
                elif x_.op == "c":
                    memo[x_.id] = ctx2.const(x_.args[0])
                else:
                    memo[x_.id] = ctx2.mk(x_.op, tuple(memo[a_.id] for a_ in x_.args))
            return memo[e.id]
        own = {0: "a_comm", 1: "a_comm", 2: "b_comm", 3: "b_comm", 4: "c_comm", 5: "c_comm", 6: "d_comm",
               7: "d_comm", 8: "z_comm", 9: "z_comm", 10: "z_comm"}
        names_ = [own[idx]] if idx in own else ["t_low", "t_mid", "t_high", "t_fourth"]
        import sweep
        for name in names_:
            root = comm[name]
            got = n2[o2["comms"][name]]
            if idx in own:
                ob = run.identity(f"{t2}/{name}", got, port(root),
                                  replay=two_run_replay(run, kind, idx, 0, 1, [name]))
            else:
                sw = sweep.Sweeper(run, ctx2, "sweep", seed=run.seed)
                sw.prove(f"{t2}/{name}", got, port(root),
                         replay=two_run_replay(run, kind, idx, 0, 1, ["t_low", "t_mid", "t_high", "t_fourth"]))


def _validate_split(run, ctx, root, parts, bname):
    rnd = random.Random(run.seed + 5)
    names = smt.variables([root])
    env = {n_: rnd.randrange(1, R) for n_ in names}
    rec = ctx.const(0)
    bv = ctx.var(bname)
    for p_, c_ in parts.items():
        rec = rec + (bv ** p_) * c_
    val = smt.evaluate([root, rec], env)
    run.validation["points"] += 1
    run.validation["outputs_compared"] += 1
    if val[root.id] != val[rec.id]:
        run.validation["mismatches"] += 1
        run.inconclusive.append(f"structural split wrt {bname} failed validation")


def _w(run, tag, what):
    import json, os
    d = os.path.join(fw.OUT, "cex")
    os.makedirs(d, exist_ok=True)
    p = os.path.join(d, f"C06_{tag.replace('/', '_')}.json")
    json.dump({"property": "C06", "what": what}, open(p, "w"), indent=1)
    return p
