"""C05 -- prover exactness (partial): row semantics of the five gate families
as computed by the real widget code == the documented relations."""
import framework as fw
import smt
from spec import rows
from checks.common import replay_identity


def run(run):
    sb = fw.run_driver(fw.SYM_BIN, ["rows"], run.seed)
    rb = fw.run_driver(fw.REAL_BIN, ["rows"], run.seed)
    ctx = smt.Ctx()
    nodes = ctx.from_nodes(sb["nodes"])
    run.validate(sb, rb, ctx, nodes)
    run.add_functions(sb["meta"]["functions"])
    names = smt.variables([nodes[i] for i in sb["outputs"].values()])
    v = {n: ctx.var(n) for n in names}
    for fam, i in sb["outputs"].items():
        spec = rows.ALL[fam](v)
        run.identity(f"row/{fam}", nodes[i], spec,
                     replay=replay_identity(["rows"], fam, spec, names, run.seed))
    run.bounds.append("row identities: all selector values, challenges and wire values (unbounded)")
