"""C05 -- prover exactness (partial): row semantics of the five gate families
as computed by the real widget code == the documented relations."""
import framework as fw
import smt
from spec import rows
from checks.common import replay_identity


def run(run):
    sb = fw.run_driver(fw.SYM_BIN, ["rows"], run.seed)
    rb = fw.run_driver(fw.REAL_BIN, ["rows"], run.seed)
    ctx = smt.Ctx()
    nodes = ctx.from_nodes(sb["nodes"])
    run.validate(sb, rb, ctx, nodes)
    run.add_functions(sb["meta"]["functions"])
    names = smt.variables([nodes[i] for i in sb["outputs"].values()])
    v = {n: ctx.var(n) for n in names}
    for fam, i in sb["outputs"].items():
        spec = rows.ALL[fam](v)
        run.identity(f"row/{fam}", nodes[i], spec,
                     replay=replay_identity(["rows"], fam, spec, names, run.seed))
    run.bounds.append("row identities: all selector values, challenges and wire values (unbounded)")
    prover_witness_runs(run)


# ---------------------------------------------------------------------------
# Prover exactness on a small circuit with SYMBOLIC witness values
# ---------------------------------------------------------------------------
import random

import xengine as xe
from smt import R


def _scripted(args, env, seed):
    from checks.verifier_common import scripted_at
    return scripted_at(args, env, seed)


def prover_witness_runs(run):
    from checks.c01 import degree_bound
    for scenario, what in ((0, "satisfying family"), (1, "one row violated"), (2, "one copy constraint broken"),
                           (3, "public input on a row without arithmetic selector")):
        args = ["prove_w", str(scenario)]
        sb = fw.run_driver(fw.SYM_BIN, args, run.seed, extra_env={"VERIF_FLIP_DEPTH": "0" if scenario == 0 else "14",
                                                                    "VERIF_MAX_PATHS": "300"})
        run.add_functions(sb["meta"]["functions"])
        ctx = smt.Ctx()
        nodes = ctx.from_nodes(sb["nodes"])
        P = sb["outputs"]["prove"]
        tag = f"prover/{what.replace(' ', '-')}"
        names = ["wa", "wb", "we", "srs0", "srs1", "srs2"]
        for k, p in enumerate(P["paths"]):
            conds = [(nodes[c["a"]], nodes[c["b"]], c["eq"], c["forced"]) for c in p["path"]]
            generic = not any(eq and not forced for _, _, eq, forced in conds)
            if p["panic"] is not None:
                # a panicking path is a violation iff it is feasible: the solver confirms a
                # witness point (hint: pseudo-random values; on the generic path every
                # comparison was decided `different`), which is then replayed concretely
                rnd = random.Random(run.seed + 77 + k)
                hint = None
                for _ in range(4):
                    env = {n: rnd.randrange(2, R) for n in names}
                    ok = True
                    for a, b, eq, forced in conds:
                        if forced:
                            continue
                        va = smt.evaluate([a, b], env)
                        if va[a.id] is None or va[b.id] is None or (va[a.id] == va[b.id]) != eq:
                            ok = False
                            break
                    if ok:
                        hint = env
                        break
                roots, asserts = [], []
                for a, b, eq, forced in conds:
                    if forced or smt.has_inv([a, b]):
                        continue
                    d = a - b
                    roots.append(d)
                    atom = f"(= (mod {smt.ref(d)} {R}) 0)"
                    asserts.append(atom if eq else f"(not {atom})")
                lines = smt.smt_defs(roots)
                if hint:
                    used = set(smt.variables(roots))
                    asserts += [f"(= {smt.vname(n)} {v})" for n, v in hint.items() if n in used]

                def rp(model, args=args, hint=hint):
                    env = {n: "%064x" % v for n, v in (hint or {}).items()}
                    rb = _scripted(args, env, run.seed)
                    out = rb["outputs"]["prove"]["paths"][0]
                    return out["panic"] is not None, {"env": env, "driver": args, "real": out}
                o = run.obligation(f"{tag}/p{k}/panic-infeasible", lines, asserts, "unsat", "panic-freedom",
                                   replay=rp, meta={"panic": p["panic"]})
                continue
            res = p["result"]
            if scenario == 0:
                if not res["proved"] or res.get("verified") != "Ok(())":
                    run.violations.append((f"{tag}/p{k}", _wv(run, tag, f"satisfying instance: {res}")))
                    continue
                # the verifier accepted the symbolic proof: its pairing comparison was decided `equal`
                # by the simulation points; the identity itself (rational in the witness values through
                # the permutation accumulator) is beyond the solver at this size and is decided for the
                # blinder / SRS family in C01 -- here only the run-level outcome is part of the claim
                run.extra["satisfying_family_symbolic_proof_accepted"] = True
            else:
                if generic and (res["proved"] or "CircuitUnsatisfied" not in str(res.get("error"))):
                    # replay at pseudo-random witness values on the concrete build of the same code
                    rnd = random.Random(run.seed + 99 + k)
                    env = {n: "%064x" % rnd.randrange(2, R) for n in names}
                    rb = _scripted(args, env, run.seed)
                    out = rb["outputs"]["prove"]["paths"][0]
                    rr = out.get("result") or {}
                    bad = out.get("panic") is not None or rr.get("proved") or "CircuitUnsatisfied" not in str(rr.get("error"))
                    path = _wv(run, tag, {"symbolic": res, "replay_env": env, "real": out, "replayed": bool(bad)})
                    if bad:
                        run.violations.append((f"{tag}/p{k}/generic-outcome", path))
                    else:
                        run.inconclusive.append(f"{tag}/p{k}: symbolic run says {res}, concrete run refuses as it should")
        run.extra[f"{tag}/paths"] = len(P["paths"])
    # satisfied concrete circuits of both minimal sizes (n = 4: no user gate; n = 8) with symbolic
    # blinders: the prover must return a proof that the verifier accepts (outcome of the symbolic run)
    for kind in (0, 1):
        sb = fw.run_driver(fw.SYM_BIN, ["prove", str(kind)], run.seed)
        o = sb["outputs"]
        if "error" in o or o.get("verified") != "Ok(())":
            run.violations.append((f"prover/satisfied-circuit{kind}",
                                   _wv(run, f"prover/satisfied{kind}", f"satisfying assignment: error={o.get('error')} verified={o.get('verified')}")))
        run.extra[f"prover/satisfied-circuit{kind}/constraints"] = o.get("n")
    run.bounds.append("prover on a 8-row circuit with symbolic witness values (a, b, e), symbolic SRS secret, concrete "
                      "blinders and scripted challenges: satisfying family (all a, b), one violated row, one broken "
                      "copy constraint; the first 14 symbolic comparisons flipped exhaustively")
    run.outside.append("'prove returns Ok <=> every row identity and copy constraint holds' on the non-generic paths "
                       "(needs: quotient divisibility <=> row identities, classical algebra, not encoded)")


def _wv(run, tag, what):
    import json, os
    d = os.path.join(fw.OUT, "cex")
    os.makedirs(d, exist_ok=True)
    p = os.path.join(d, f"C05_{tag.replace('/', '_')}.json")
    json.dump({"property": "C05", "what": what}, open(p, "w"), indent=1)
    return p
