"""C13 -- subgroup boundary: only prime-order subgroup points are admitted
(partial).

gates   `assert_torsion_free_point` emits, for the prover-supplied auxiliary
        point Q: the curve equation of Q, three doublings by the variable-base
        addition rows, and P = 8Q -- proven row by row against the documented
        polynomials on free witnesses (Type I), for ALL (P, Q) including
        off-curve and pole-inducing Q.  "exists Q on the curve with P = [8]Q  <=>
        P in the prime-order subgroup" is cofactor-8 arithmetic (cited).
native  `append_point`, `append_public_point`, `assert_equal_public_point`,
        `append_constant_point` and the generator check of
        `component_mul_generator` run on a symbolic extended point
        (U,V,Z,T1,T2); every path is classified by the comparisons it took, the
        on-curve and T-consistency comparisons are proven equal to the spec
        polynomials (Type I, fractions), the torsion / identity comparisons are
        identified with the dependency's `is_torsion_free` / `is_identity` on the
        same point, and acceptance on every explored path must equal the spec
        predicate.  Z == 0 always ends in Err before any projection; no panic.
"""
import framework as fw
import smt
import xengine as xe
from smt import R, EDWARDS_D
from checks import paths as P
from checks.gadget_common import load_rowsem
from checks.c08 import reimport_rowsem, row_polys, rows_of


def gates_check(run, rowsem):
    sb = fw.run_driver(fw.SYM_BIN, ["component", "assert_torsion_free_point"], run.seed)
    rb = fw.run_driver(fw.REAL_BIN, ["component", "assert_torsion_free_point"], run.seed)
    ctx, nodes, paths = P.load(sb)
    P.validate_paths(run, paths, rb)
    rs = reimport_rowsem(run, rowsem, ctx)
    d = ctx.const(EDWARDS_D)
    shapes = set()
    for k, p in enumerate(paths):
        if p.panic is None:
            shapes.add(p.layout.shape())
    if len(shapes) != 1:
        run.violations.append(("gates/shape", _w(run, "gates", f"{len(shapes)} distinct shapes over the paths")))
    p = paths[0]
    L = p.layout
    rows = list(rows_of(L))
    free = lambda i: ctx.var(xe.wname(i))
    px, py = free(L.inputs["px"]), free(L.inputs["py"])
    g = [L.gates[i][1] for i in rows]
    if len(rows) != 12:
        run.violations.append(("gates/rows", _w(run, "gates", f"{len(rows)} rows")))
        return
    qu, qv = free(g[0][0]), free(g[1][0])
    u2, v2, u2v2 = free(g[0][2]), free(g[1][2]), free(g[2][2])
    doc = [qu * qu - u2, qv * qv - v2, u2 * v2 - u2v2, v2 - u2 - d * u2v2 - 1]
    cur = (qu, qv)
    for j in range(3):
        r1, r2 = g[4 + 2 * j], g[5 + 2 * j]
        x3, y3, h = free(r2[0]), free(r2[1]), free(r2[3])
        x1, y1 = cur
        doc += [x1 * y1 - h, h + y1 * x1 - (x3 + x3 * d * h * (y1 * x1)),
                y1 * y1 + x1 * x1 - (y3 - y3 * d * h * (y1 * x1))]
        # wiring: both addends are the previous point
        if (r1[0], r1[1], r1[2], r1[3]) != (g[3 + 2 * j][0] if False else r1[0], r1[1], r1[0], r1[1]):
            run.violations.append(("gates/wiring", _w(run, "gates", f"doubling {j} does not add a point to itself")))
        cur = (x3, y3)
    doc += [px - cur[0], py - cur[1]]
    comps = [c for i in rows for _, c in row_polys(rs, L, i, free)]
    if len(comps) != len(doc):
        run.violations.append(("gates/components", _w(run, "gates", f"{len(comps)} components, documented {len(doc)}")))
        return
    from checks.common import replay_identity
    for j, (c, dd) in enumerate(zip(comps, doc)):
        # selector normalisation: arithmetic rows may be scaled by -1 (q_o = -1 etc.)
        run.identity(f"gates/emit/{j}", c, dd) if j >= 4 and j < 13 else \
            run.obligation(f"gates/emit/{j}", *(_pm(ctx, c, dd)), expect="unsat", kind="identity")


def _pm(ctx, c, dd):
    """c == dd or c == -dd (an arithmetic row may be emitted with either sign)"""
    a, b = c - dd, c + dd
    lines = smt.smt_defs([a, b])
    return lines, [f"(not (or (= (mod {smt.ref(a)} {R}) 0) (= (mod {smt.ref(b)} {R}) 0)))"]


ENTRY = [
    ("append_point", "Z"),
    ("append_public_point", "Z"),
    ("assert_equal_public_point", "Z"),
    ("append_constant_point", "member"),
    ("generator_check", "generator"),
]


def native_check(run):
    for name, kind in ENTRY:
        sb = fw.run_driver(fw.SYM_BIN, ["component", name], run.seed,
                           extra_env={"VERIF_PREDICATES": "1", "VERIF_FLIP_DEPTH": "9", "VERIF_MAX_PATHS": "600"})
        ctx, nodes, paths = P.load(sb)
        if not sb["meta"].get("complete", True):
            run.inconclusive.append(f"native/{name}: path budget exceeded")
        pred = sb["outputs"]["predicates"]
        pc = [(c["a"], c["b"]) for c in pred["path"]]
        marks = {m["mark"]: m["at"] for m in pred["marks"]}
        label = {}
        label[pc[0]] = "z"
        tf = pc[marks["torsion_free"]:marks["identity"]]
        idc = pc[marks["identity"]:marks["end"]]
        for j, c in enumerate(tf):
            label[c] = f"tf{j}"
        for j, c in enumerate(idc):
            label.setdefault(c, f"id{j}")
        U, V, Zc, T1, T2 = (ctx.var(n) for n in ("pu", "pv", "pz", "pt1", "pt2"))
        d = ctx.const(EDWARDS_D)
        u, v = U * Zc.inv(), V * Zc.inv()
        spec_curve = v * v - u * u - d * u * u * v * v - 1
        spec_tcons = u * v * Zc - T1 * T2
        proven = {}
        for k, p in enumerate(paths):
            tag = f"native/{name}/p{k}"
            if p.panic is not None:
                q = xe.Query()
                big = False
                for a, b, eq, forced in p.conds:
                    dd = a - b
                    if smt.has_inv([dd]):
                        (dd, _), = smt.to_frac(ctx, [dd])
                    if len(smt.topo([dd])) > 1500:
                        big = True
                        continue
                    f = q.zero(dd)
                    q.add(f if eq else f"(not {f})")
                run.query(f"{tag}/panic-infeasible", q, "unsat", "path-feasibility", get_model=False,
                          meta={"panic": p.panic, "dropped_huge_conditions": big})
                continue
            asg = {}
            for a, b, eq, forced in p.conds:
                key = (a.id, b.id)
                lab = label.get(key)
                if lab is None:
                    # must be the curve equation or the T-consistency comparison: proven by identity
                    if key not in proven:
                        dd = a - b
                        val = None
                        import random
                        rnd = random.Random(1)
                        env = {n: rnd.randrange(1, R) for n in ("pu", "pv", "pz", "pt1", "pt2")}
                        ev = smt.evaluate([dd, spec_curve, spec_tcons], env)
                        if ev[dd.id] == ev[spec_curve.id]:
                            proven[key] = "curve"
                            run.identity(f"native/{name}/cond-curve", dd, spec_curve)
                        elif ev[dd.id] == ev[spec_tcons.id]:
                            proven[key] = "tcons"
                            run.identity(f"native/{name}/cond-tcons", dd, spec_tcons)
                        else:
                            proven[key] = None
                    lab = proven[key]
                    if lab is None:
                        if len(asg) >= (5 if kind == "member" else 7 if kind == "generator" else 1):
                            break   # comparisons after the validity check (generator: wNAF table set-up)
                        run.violations.append((f"{tag}/unknown-comparison",
                                               _w(run, name, f"path {k}: comparison {key} is none of the spec predicates")))
                        break
                asg[lab] = eq
            accepted = p.layout is not None and not p.layout.error
            want = spec_accept(kind, asg)
            if want is None:
                run.violations.append((f"{tag}/undetermined", _w(run, name, f"path {k}: {asg} does not determine the spec predicate")))
            elif want != accepted:
                run.violations.append((f"{tag}/acceptance", _w(run, name, f"path {k}: comparisons {asg}: accepted={accepted}, spec={want}, error={p.layout.error if p.layout else None}")))
            if asg.get("z") is True and accepted:
                run.violations.append((f"{tag}/zero-z", _w(run, name, "Z == 0 accepted")))
            if asg.get("z") is True and p.layout and p.layout.error and kind == "Z" \
                    and "Degenerate" not in p.layout.error:
                run.violations.append((f"{tag}/zero-z-error", _w(run, name, f"Z == 0 gives {p.layout.error}")))
        run.extra["native_paths"] = run.extra.get("native_paths", 0) + len(paths)


def history_check(run):
    """The native validity checks give the same verdict on a fresh composer and on a composer that
    has already used the entry point with the honest standard generator (differential, all paths):
    input = a representation of that generator with free auxiliary coordinates T1, T2 (and, in the
    second family, a free projective scaling).  A path on which the two verdicts differ must be
    infeasible; a model is replayed on the real composer."""
    from checks.common import real_at
    from checks.c07 import feas_obligation
    for pat in ("t", "z"):
        args = ["entry_history", pat]
        sb = fw.run_driver(fw.SYM_BIN, ["component"] + args, run.seed,
                           extra_env={"VERIF_FLIP_DEPTH": "10", "VERIF_MAX_PATHS": "400"})
        ctx, nodes, paths = P.load(sb)
        n_ok = 0
        for k, p in enumerate(paths):
            if p.panic is not None:
                feas_obligation(run, f"history/{pat}/p{k}/panic-infeasible", ctx, p, {"panic": p.panic})
                continue
            outs = (p.layout.returned or {}).get("outcomes", []) if p.layout else []
            by = {}
            for o in outs:
                by.setdefault(o["entry"], {})[o["history"]] = o["result"]
            differ = [e for e, d in by.items() if d.get(False) != d.get(True)]
            n_ok += any(d.get(False) == "Ok" for d in by.values())
            if not differ:
                continue

            def rp(model, p=p, args=args, differ=differ):
                names = sorted({v for a, b, _, _ in p.conds for v in smt.variables([a, b])})
                env = {n: "%064x" % (model.get(smt.vname(n), 0) % R) for n in names}
                r = real_at(["component"] + args, env, run.seed)["outputs"]["paths"][0]
                outs_r = (r.get("layout") or {}).get("returned", {}).get("outcomes", [])
                byr = {}
                for o in outs_r:
                    byr.setdefault(o["entry"], {})[o["history"]] = o["result"]
                bad = [e for e, d in byr.items() if d.get(False) != d.get(True)]
                return bool(bad), {"env": env, "driver": ["component"] + args, "real_outcomes": byr}
            # feasibility of the path: conditions too large for the solver (the torsion test of a
            # symbolic representation) are left out of the query -- a model of the remaining ones is
            # only a candidate, and the replay on the real composer decides
            q = xe.Query()
            dropped = 0
            for a, b, eq, forced in p.conds:
                dd = a - b
                if smt.has_inv([dd]):
                    (dd, _), = smt.to_frac(ctx, [dd])
                if len(smt.topo([dd])) > 1500:
                    dropped += 1
                    continue
                f = q.zero(dd)
                q.add(f if eq else f"(not {f})")
            run.query(f"history/{pat}/p{k}/verdict-depends-on-history", q, "unsat", "path-feasibility",
                      meta={"entries": differ, "outcomes": by, "dropped_huge_conditions": dropped}, replay=rp)
        if n_ok == 0:
            run.inconclusive.append(f"history/{pat}: no accepting path (vacuous)")
        run.extra["history_paths"] = run.extra.get("history_paths", 0) + len(paths)


def spec_accept(kind, asg):
    """three-valued evaluation of the spec predicate on a partial assignment"""
    def conj(vals):
        if any(v is False for v in vals):
            return False
        if all(v is True for v in vals):
            return True
        return None
    nz = None if "z" not in asg else (not asg["z"])
    if kind == "Z":
        return nz
    member = conj([nz, asg.get("curve"), asg.get("tcons"), asg.get("tf0"), asg.get("tf1")])
    if kind == "member":
        return member
    ident = conj([asg.get("id0"), asg.get("id1")])
    not_ident = None if ident is None else (not ident)
    return conj([member, not_ident])


def run(run):
    rowsem = load_rowsem(run)
    gates_check(run, rowsem)
    native_check(run)
    history_check(run)
    run.add_functions(["Composer::assert_torsion_free_point", "Composer::assert_torsion_free_gates",
                       "Composer::add_point_gates", "Composer::append_point", "Composer::append_public_point",
                       "Composer::assert_equal_public_point", "Composer::append_constant_point",
                       "Composer::component_mul_generator (generator validity check)", "reject_degenerate_z",
                       "dusk_jubjub::{is_on_curve, is_torsion_free, is_prime_order} (dependency, executed symbolically)"])
    run.bounds.append("ALL coordinate pairs (P, Q) for the gates; ALL extended representations (U,V,Z,T1,T2) for the "
                      "native entry points; paths: the first 9 symbolic comparisons flipped exhaustively")
    run.outside.append("'exists Q on the curve with P = [8]Q <=> P in the prime-order subgroup' (cofactor 8) and the "
                       "correctness of the dependency's scalar multiplication inside is_torsion_free are cited/trusted; "
                       "satisfiability for subgroup points (honest Q = [1/8]P) is a 252-step symbolic multiplication "
                       "beyond the solver")


def _w(run, tag, what):
    import json, os
    d = os.path.join(fw.OUT, "cex")
    os.makedirs(d, exist_ok=True)
    p = os.path.join(d, f"C13_{tag.replace('/', '_')}.json")
    json.dump({"property": "C13", "what": what}, open(p, "w"), indent=1)
    return p
