"""C17 -- checked decoders are total and bounded (partial).

Engine K: Kani 0.68 / CBMC over the REAL crate.  Each harness feeds an arbitrary
byte string (symbolic content and symbolic length up to the stated bound) to
one checked decoder; CBMC decides, for all such strings, that no panic,
arithmetic overflow, out-of-bounds access or unbounded loop (unwinding
assertions) is reachable.  Curve and field kernels of the dependency
dusk-bls12_381 run as contract bodies (`cfg(kani)` in the vendored copy:
decoding a point yields Err or a valid point; `is_on_curve`/`is_torsion_free`
keep their flag handling and return an arbitrary verdict; scalar decoding keeps
the real canonicity comparison).  A failed check is replayed through Kani's
concrete playback values on the real (unpatched) build.

Engine M: the header parsers `Prover::try_from_bytes` / `Verifier::try_from_bytes`
are translated from MIR to bit-vector path conditions with byte slices modelled by
their length: for ALL input lengths and ALL header values every panic path (slice
index, `expect`, overflow) is infeasible (cvc5 integer encoding of the bit-vector
query, z3 bit-blasting as fallback).  The allocation sizes requested by `CompressedCircuit::from_bytes` (with_capacity,
vec![x; n], counted collect, inflate limit) are bounded by 857*m+30 elements for ALL
capacities m and ALL integers read from the input (checks/decoder_alloc.py).
Kani cannot compile the Prover harness
(internal compiler error) and does not finish the Verifier one, see DESIGN.md.
"""
import json
import os
import re
import subprocess
import time

import framework as fw
import smt

KANI_DIR = os.path.join(fw.VERIF, "kani")

HARNESSES = [
    # name, tier, bound description
    ("polynomial_from_slice", "quick", "<= 67 bytes (two scalars + slack)"),
    ("commit_key_from_slice_two_points", "quick", "<= 101 bytes (two compressed points + slack)"),
    ("proof_from_bytes", "quick", "all 1008-byte strings"),
    ("commit_key_from_raw_var_bytes_one_point", "thorough", "<= 8+97 bytes (one raw point), symbolic length"),
]


def kani(harness, timeout, playback=False):
    # proof_from_bytes asserts re-encoding: it is built with the canonical-aware point contract
    # (separate target directory: different cfg flags rebuild the dependency copy)
    canon = harness == "proof_from_bytes"
    env = dict(os.environ, RUSTFLAGS="--cfg plonk_verif" + (" --cfg kani_canonical_points" if canon else ""),
               CARGO_NET_OFFLINE="true")
    lock = os.path.join(KANI_DIR, "Cargo.lock")
    cmd = ["cargo", "kani", "--target-dir", os.path.join(fw.CACHE, "kani_canon" if canon else "kani"), "--harness", harness]
    if playback:
        cmd += ["-Z", "concrete-playback", "--concrete-playback=print"]
    t0 = time.time()
    try:
        p = subprocess.run(["bash", "-c", f"ulimit -v 24000000; exec {' '.join(cmd)}"], cwd=KANI_DIR, env=env,
                           capture_output=True, text=True, timeout=timeout)
        out = p.stdout + p.stderr
    except subprocess.TimeoutExpired as e:
        return "timeout", (e.stdout or b"").decode(errors="replace")[-3000:] if isinstance(e.stdout, bytes) else "", time.time() - t0
    return ("ok" if "VERIFICATION:- SUCCESSFUL" in out else "failed" if "VERIFICATION:- FAILED" in out else "error"), out, time.time() - t0


def parse(out):
    m = re.search(r"\*\* (\d+) of (\d+) failed", out)
    checks = (int(m.group(1)), int(m.group(2))) if m else (None, None)
    cov = re.search(r"\*\* (\d+) of (\d+) cover properties satisfied", out)
    cover = (int(cov.group(1)), int(cov.group(2))) if cov else (None, None)
    failed = re.findall(r"Failed Checks: (.*)\n File: \"(.*)\", line (\d+), in (.*)", out)
    unwind_fail = "unwinding assertion" in " ".join(f[0] for f in failed)
    return checks, cover, failed, unwind_fail


def playback_bytes(out):
    """bytes of the first kani::any() (the buffer) and the length from concrete playback output"""
    vals = re.findall(r"vec!\[([0-9, ]*)\]", out)
    flat = []
    for v in vals:
        flat.append([int(x) for x in v.split(",") if x.strip()])
    return flat


def run(run):
    # engine M: header/length arithmetic of Prover / Verifier::try_from_bytes for ALL lengths
    from checks import decoder_lengths
    decoder_lengths.obligations(run)
    from checks import decoder_validity
    decoder_validity.obligations(run)
    # engine M: allocation sizes of the compressed-circuit decoder for ALL capacities and header values
    from checks import decoder_alloc
    decoder_alloc.obligations(run)
    run.add_functions(["Prover::try_from_bytes (header and slicing, MIR)", "Verifier::try_from_bytes (header and "
                       "slicing, MIR)"])
    run.bounds.append("engine M: ALL input lengths (64-bit) and ALL values of the six 8-byte header fields of "
                      "Prover::try_from_bytes / Verifier::try_from_bytes; nested decoders opaque (Ok(arbitrary) | Err)")
    lock = os.path.join(KANI_DIR, "Cargo.lock")
    if not os.path.exists(lock):
        subprocess.run(["cp", "/repo/Cargo.lock", lock])
    per = 1500 if run.tier == "quick" else 3600
    todo = [h for h in HARNESSES if h[1] == "quick" or run.tier == "thorough"]
    if os.environ.get("VERIF_SKIP_KANI"):
        # triage aid only: the run is reported inconclusive, never as a pass
        run.inconclusive.append("Kani harnesses skipped (VERIF_SKIP_KANI set)")
        todo = []
    results = []
    for name, tier, bound in todo:
        status, out, secs = kani(name, per)
        checks, cover, failed, unwind_fail = parse(out)
        rec = {"harness": name, "bound": bound, "status": status, "checks": checks, "cover": cover,
               "failed_checks": [f"{f[0]} @ {f[1]}:{f[2]} in {f[3]}" for f in failed][:5], "seconds": round(secs, 1)}
        results.append(rec)
        o = fw.Obligation(f"kani/{name}", "bounded-model-checking", [f"; cargo kani --harness {name}", f"; bound: {bound}"],
                          [], "unsat", per)
        o.result = smt.Result({"ok": "unsat", "failed": "sat"}.get(status, "unknown"), {}, secs, out[-4000:], "kani 0.68 / cbmc 6.11 (cadical)")
        o.result.script = ""
        run.obls.append(o)
        if status == "ok":
            if cover[0] is not None and cover[0] == 0:
                run.inconclusive.append(f"kani/{name}: no cover property satisfied (vacuous harness)")
            continue
        if status == "failed":
            # replay through concrete playback on the real build
            st2, out2, _ = kani(name, per, playback=True)
            vals = playback_bytes(out2)
            reproduced, detail = False, {"playback_values": len(vals)}
            if vals:
                buf = [v[0] for v in vals if len(v) == 1]
                lens = [v for v in vals if len(v) == 8]
                ln = int.from_bytes(bytes(lens[-1]), "little") if lens else len(buf)
                data = bytes(buf[:ln]) if name != "proof_from_bytes" else bytes(buf)
                whole = [v for v in vals if len(v) >= 1008]
                if name == "proof_from_bytes" and whole:
                    data = bytes(whole[0][:1008])   # the array is printed as one vector
                if name == "proof_from_bytes" and len(data) < 1008:
                    data = data + bytes(1008 - len(data))
                rb = fw.run_driver(fw.REAL_BIN, ["decode", name, data.hex()], run.seed)
                detail.update({"bytes": data.hex(), "real_outcome": rb["outputs"]["outcome"]})
                reproduced = rb["outputs"]["outcome"] == "PANIC" or \
                    (name == "proof_from_bytes" and rb["outputs"]["outcome"] == "Ok(noncanonical)")
            info = {"property": "C17", "harness": name, "failed_checks": rec["failed_checks"], "replay_detail": detail,
                    "replayed": reproduced}
            d = os.path.join(fw.OUT, "cex")
            os.makedirs(d, exist_ok=True)
            path = os.path.join(d, f"C17_{name}.json")
            json.dump(info, open(path, "w"), indent=1)
            if reproduced:
                run.violations.append((f"kani/{name}", path))
            else:
                run.inconclusive.append(f"kani/{name}: FAILED ({rec['failed_checks'][:2]}) but the playback values do "
                                        f"not panic (nor decode non-canonically) on the real build "
                                        f"({detail.get('real_outcome')}): a contract body is too liberal")
        else:
            run.inconclusive.append(f"kani/{name}: {status} after {secs:.0f}s")
    run.extra["harnesses"] = results
    run.add_functions(["CommitKey::from_raw_var_bytes", "Polynomial::from_slice", "CommitKey::from_slice",
                       "Proof::from_bytes"])
    run.bounds.append("; ".join(f"{n}: {b}" for n, _, b in todo))
    run.outside.append("real curve/field arithmetic (contract bodies), inflate/MessagePack of compressed circuits, byte "
                       "strings longer than the bounds, 'usable for proving without panicking', the full "
                       "Prover/Verifier bodies beyond the header (std HashMap label cache is out of CBMC's reach), "
                       "allocation bounds of decoders other than the compressed-circuit one beyond "
                       "container-length <= input-length assertions")
    run.assumptions.append("contract bodies of the vendored dependency copy under cfg(kani) over-approximate the real "
                           "kernels for panic-freedom; Kani/CBMC/cadical; unwinding assertions on")
