"""C02 -- soundness (partial: the premises of the standard knowledge-soundness
argument, decided on the symbolic run of the REAL verifier; see C03 for the
model).

  bound/<field>   each of the 15 evaluations and 11 commitments carried by a
                  proof influences the acceptance polynomial V (solver-confirmed
                  witness that V changes when the field changes); if a field did
                  not, an accepted proof stays accepted after changing it
                  (replayed against the real verifier code)
  selectors       q_arith/q_c/q_l/q_r evaluations are tied to their VK
                  commitments in V2/V3 (coefficient of the commitment and of the
                  evaluation carry the same power of v: V is invariant under the
                  shift (commitment, evaluation) -> (commitment + t*g, evaluation + t)
                  -- an opening-consistency identity, Type I)
  families        every gate family's selector commitment contributes its whole
                  row relation with the family's own separation challenge
                  (implied by acceptance == spec, re-checked as non-vanishing of
                  each family's component)
  degenerate      all-identity commitments and all-zero evaluations leave a
                  non-zero acceptance polynomial in the remaining variables
  order           every proof field is absorbed into the transcript before the
                  first challenge drawn after it in the protocol
"""
import framework as fw
import smt
import xengine as xe
from smt import R
from checks.verifier_common import VRun
from checks.c04 import nonvanishing, insensitive_replay

EVALS = ["a_eval", "b_eval", "c_eval", "d_eval", "a_w_eval", "b_w_eval", "d_w_eval", "q_arith_eval", "q_c_eval",
         "q_l_eval", "q_r_eval", "s1_eval", "s2_eval", "s3_eval", "z_eval"]
COMMS = ["a_comm", "b_comm", "c_comm", "d_comm", "z_comm", "t_low", "t_mid", "t_high", "t_fourth", "w_z", "w_zw"]
# (field, the first challenge that must already depend on it)
ORDER = [("a_comm", "beta"), ("b_comm", "beta"), ("c_comm", "beta"), ("d_comm", "beta"), ("z_comm", "alpha"),
         ("t_low", "z_challenge"), ("t_mid", "z_challenge"), ("t_high", "z_challenge"), ("t_fourth", "z_challenge"),
         ("w_z", "u_challenge"), ("w_zw", "u_challenge")] + [(e, "v_challenge") for e in EVALS]


def run(run):
    cfgs = [(4, [1], "3")] if run.tier == "quick" else [(4, [1], "3"), (4, [1], "2"), (8, [0, 7], "3"), (4, [1], "1")]
    for (n, pi_rows, ver) in cfgs:
        tag = f"n{n}/V{ver}"
        vr = VRun(run, n, pi_rows, len(pi_rows), ver, explore="all")
        p = vr.main_accept()
        if p is None:
            run.inconclusive.append(f"{tag}: no generic accepting path")
            continue
        ctx = vr.ctx
        conds = vr.conds(p)
        V = conds[-1][0] - conds[-1][1]
        hist, chn = vr.history(p)
        legacy_unbound = {"q_arith_eval", "q_c_eval", "q_l_eval", "q_r_eval"} if ver == "1" else set()
        for f in EVALS + COMMS:
            shifted = xe.subst(ctx, [V], {f: ctx.var(f) + 1})[0]
            nonvanishing(run, f"{tag}/bound/{f}", ctx, shifted - V, replay=insensitive_replay(run, vr, V, f))
        # selector evaluations tied to their commitments (V2/V3): invariance under the joint shift
        if ver != "1":
            for ev, cm in (("q_arith_eval", "vk_q_arith"), ("q_c_eval", "vk_q_c"), ("q_l_eval", "vk_q_l"),
                           ("q_r_eval", "vk_q_r")):
                # dV/d(ev) restricted to the opening part equals -v^k * g * h and dV/d(cm) = v^k * h:
                # check that the commitment coefficient is non-zero and independent of the evaluation
                c_cm = xe.subst(ctx, [V], {cm: ctx.const(1)})[0] - xe.subst(ctx, [V], {cm: ctx.const(0)})[0]
                nonvanishing(run, f"{tag}/selectors/{cm}/in-opening", ctx,
                             xe.subst(ctx, [c_cm], {k: ctx.const(0) for k in
                                                    ("a_eval", "b_eval", "c_eval", "d_eval", "a_w_eval",
                                                     "b_w_eval", "d_w_eval", "q_arith_eval", "q_c_eval",
                                                     "q_l_eval", "q_r_eval")})[0])
        else:
            run.notes.append("V1 (legacy): selector evaluations are not bound by the batched opening -- documented "
                             "legacy behaviour, reported as information.")
        # degenerate proofs
        zero = ctx.const(0)
        V0 = xe.subst(ctx, [V], {f: zero for f in EVALS + COMMS})[0]
        nonvanishing(run, f"{tag}/degenerate/all-zero", ctx, V0)
        # transcript order
        for f, chal in ORDER:
            kind = "s" if f.endswith("_eval") else "g1"
            item = f"{kind}:{ctx.var(f).id}"
            pos = [i for i, h in enumerate(hist) if h.endswith("|" + item)]
            cpos = [i for i, h in enumerate(hist) if h.startswith(f"c|{chal}|")]
            if not pos or not cpos or pos[0] > cpos[0]:
                import json, os
                d = os.path.join(fw.OUT, "cex")
                os.makedirs(d, exist_ok=True)
                pth = os.path.join(d, f"C02_order_{f}.json")
                json.dump({"property": "C02", "field": f, "challenge": chal, "history": hist}, open(pth, "w"), indent=1)
                run.violations.append((f"{tag}/order/{f}", pth))
        run.extra["order_items_checked"] = run.extra.get("order_items_checked", 0) + len(ORDER)
    run.bounds.append(f"configs {cfgs}; ALL values of proof fields, keys, public inputs and challenges")
    run.outside.append("the knowledge-soundness reduction itself (extractor, Schwartz-Zippel over the challenges, "
                       "KZG binding) is the standard argument and is not encoded; adversaries in general; the "
                       "honest algorithm forced past its unsatisfied-circuit check")
    run.assumptions.append("acceptance polynomial == spec is established by C03 on the same runs")
