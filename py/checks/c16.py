"""C16 -- serialization round trips preserve keys, proofs and parameters.

The real encoders/decoders (`Prover::to_bytes/try_from_bytes`, `Verifier`,
`Proof`, `PublicParameters`, and the key/polynomial/evaluation codecs below
them) run on SYMBOLIC contents: the SRS secret and bases, every selector
constant of the compiled circuit and the prover's blinders are free variables,
so each 32/48/97-byte slot of an encoding carries a distinct term.  The claim
`decode(encode(x))` re-encodes to the same bytes, the decoded prover computes
the same proof terms from the same draws, and the decoded verifier evaluates
the same acceptance condition (same comparisons over the same terms, Fiat-
Shamir as a random oracle) therefore holds for EVERY value of those contents
at the explored circuit shapes.  Proof canonicity is checked on 1008 bytes of
arbitrary accepted components.

Deciding step: equality of hash-consed terms (the degenerate, syntactic case of
the field-identity query; no SMT call is needed when both sides are the same
term).  A flag that is false is replayed on the real build with concrete
values before it is reported.
"""
import json
import os

import framework as fw
import smt

# (addition rows, public inputs, custom gates); 6 + adds rows: 2 and 10 give exactly 8 and 16 rows
SHAPES_QUICK = [(1, 1, 0), (1, 0, 0), (2, 1, 0), (6, 2, 0), (10, 2, 0), (40, 3, 0), (1, 1, 1)]
SHAPES_THOROUGH = SHAPES_QUICK + [(a, min(a, 4), 0) for a in range(0, 60) if a not in (1, 2, 6, 10, 40)] + \
    [(58, 5, 0), (120, 5, 1), (122, 0, 0), (250, 3, 0), (500, 4, 0), (1018, 3, 0), (1030, 3, 0), (2100, 2, 0)]

FLAGS = ["pp_raw_roundtrip_identical", "pp_checked_roundtrip_identical", "arbitrary_proof_reencodes_to_itself",
         "prover_roundtrip_identical", "verifier_roundtrip_identical", "decoded_prover_same_proof",
         "proof_roundtrip_identical", "honest_proof_same_verdict", "honest_proof_same_condition",
         "arbitrary_proof_same_verdict", "arbitrary_proof_same_condition"]


def proof_canonicity(run):
    """Every path of Proof::from_bytes on 11 arbitrary group elements and 15 arbitrary 256-bit
    integers v_i + kappa_i*r: on each ACCEPTING path the solver shows every kappa_i = 0 (only
    canonical scalar encodings are accepted) and the re-encoding carries the same values."""
    from checks import paths as pth
    from checks.common import real_at
    sb = fw.run_driver(fw.SYM_BIN, ["proof_canon"], run.seed, extra_env={"VERIF_MAX_PATHS": "256"})
    ctx = smt.Ctx()
    nodes = ctx.from_nodes(sb["nodes"])
    dec = sb["outputs"]["decode"]
    kappas = [nodes[k] for k in sb["outputs"]["kappas"]]
    if not dec["complete"]:
        run.inconclusive.append("proof_canon: path enumeration incomplete")
    accepted = 0
    for i, pj in enumerate(dec["paths"]):
        if pj["panic"] is not None:
            path = _cex("proof_canon_panic", {"property": "C16", "what": "Proof::from_bytes panicked", "path": pj,
                                              "replayed": False})
            run.inconclusive.append(f"proof_canon/path{i}: decoder panicked on the symbolic input ({pj['panic']}); see {path}")
            continue
        if not pj["result"]["accepted"]:
            continue
        accepted += 1
        P = pth.Path(pj, nodes)
        roots = []
        conds = P.cond_smt(ctx, roots)
        lines = smt.smt_defs(roots + kappas)
        goal = "(or " + " ".join(f"(not (= (mod {smt.ref(k)} {smt.R}) 0))" for k in kappas) + ")"

        def rp(model, pj=pj):
            env = {}
            for j in range(15):
                v = model.get(smt.vname(f"pe{j}_kappa"), 0) % smt.R
                env[f"pe{j}_kappa"] = "%064x" % (1 if v else 0)
            if not any(int(v, 16) for v in env.values()):
                env["pe0_kappa"] = "%064x" % 1
            rb = real_at(["proof_canon"], env, run.seed)
            r = rb["outputs"]["decode"]["paths"][0]["result"]
            bad = bool(r and r.get("accepted") and not r.get("reencoded_bytes_identical"))
            return bad, {"driver": ["proof_canon"], "env": env, "real": r}
        run.obligation(f"proof_canon/path{i}/accepted-implies-canonical", lines, conds + [goal], "unsat",
                       "decoder-canonicity", replay=rp)
        if not pj["result"]["reencoded_values_match"]:
            ok, det = rp({})
            path = _cex("proof_canon_values", {"property": "C16", "what": "re-encoding carries different values",
                                               "replay_detail": det, "replayed": ok})
            (run.violations if ok else run.inconclusive).append(
                (f"proof_canon/path{i}/values", path) if ok else f"proof_canon/path{i}: re-encoded values differ")
    if accepted == 0:
        run.inconclusive.append("proof_canon: no accepting path (vacuous)")
    run.add_functions(sb["meta"]["functions"])
    run.bounds.append("proof canonicity: ALL 1008-byte strings made of 11 arbitrary group-element encodings and 15 "
                      "arbitrary 256-bit integers v + kappa*r (all paths of the decoder)")


def _cex(tag, info):
    d = os.path.join(fw.OUT, "cex")
    os.makedirs(d, exist_ok=True)
    path = os.path.join(d, f"C16_{tag}.json")
    json.dump(info, open(path, "w"), indent=1)
    return path


def run(run):
    proof_canonicity(run)
    shapes = SHAPES_QUICK if run.tier == "quick" else SHAPES_THOROUGH
    table = []
    # custom-gate families present in the circuit (r range, l logic, f fixed-base, v variable-base):
    # decoders rebuild per-widget state, so each family is also exercised alone
    fams = ["rl", "f", "l", "r", "fv"] if run.tier == "quick" else ["rl", "f", "l", "r", "fv", "rlfv", "rf", "lv"]
    expanded = []
    for shape in shapes:
        if shape[2]:
            expanded += [(shape, fam) for fam in (fams if shape == (1, 1, 1) else ["rl"])]
        else:
            expanded.append((shape, ""))
    for shape, fam in expanded:
        args = ["roundtrip"] + [str(x) for x in shape]
        xenv = {"VERIF_CUSTOM": fam} if fam else None
        sb = fw.run_driver(fw.SYM_BIN, args, run.seed, extra_env=xenv)
        out = sb["outputs"]
        flags = out["flags"]
        row = {"adds": shape[0], "public_inputs": shape[1], "custom_gates": bool(shape[2]),
               "constraints": out["constraints"], "prover_bytes": out["prover_bytes"],
               "verifier_bytes": out["verifier_bytes"], "terms": out.get("nodes_in_arena"), "flags": flags}
        table.append(row)
        tag = f"n{out['constraints']}_pi{shape[1]}_c{shape[2]}{fam}"
        if out.get("nodes_in_arena", 0) < 1000:
            run.inconclusive.append(f"{tag}: contents are not symbolic (vacuous run)")
        for f in FLAGS:
            v = flags.get(f)
            o = fw.Obligation(f"{tag}/{f}", "identity/term-equality", [f"; symdrv {' '.join(args)}"], [], "unsat", 0)
            o.result = smt.Result("unsat" if v is True else "sat", {}, 0.0, "", "hash-consed term identity")
            o.result.script = ""
            run.obls.append(o)
            if v is True:
                continue
            # replay on the real build (concrete contents derived from the seed)
            rb = fw.run_driver(fw.REAL_BIN, args, run.seed, extra_env=xenv)
            rv = rb["outputs"]["flags"].get(f)
            d = os.path.join(fw.OUT, "cex")
            os.makedirs(d, exist_ok=True)
            path = os.path.join(d, f"C16_{tag}_{f}.json")
            json.dump({"property": "C16", "driver": args, "env": xenv, "seed": run.seed, "flag": f, "symbolic": v, "real": rv,
                       "all_flags_real": rb["outputs"]["flags"], "replayed": rv is not True}, open(path, "w"), indent=1)
            if rv is not True:
                run.violations.append((f"{tag}/{f}", path))
            else:
                run.inconclusive.append(f"{tag}/{f}: terms differ but the real build agrees at the seed's values")
        for k in ("decode_error", "prove_error"):
            if k in flags:
                run.inconclusive.append(f"{tag}: {k} {flags[k]}")
    run.extra["shapes"] = table
    run.validation["points"] += len(shapes)
    run.add_functions(["PublicParameters::to_raw_var_bytes", "PublicParameters::from_slice_unchecked",
                       "PublicParameters::to_var_bytes", "PublicParameters::from_slice", "CommitKey::to_raw_var_bytes",
                       "CommitKey::from_raw_var_bytes", "CommitKey::to_var_bytes", "CommitKey::from_slice",
                       "OpeningKey Serializable", "Prover::to_bytes", "Prover::try_from_bytes", "Prover::new",
                       "ProverKey::to_var_bytes", "ProverKey::from_slice", "Polynomial::to_var_bytes",
                       "Polynomial::from_slice", "Evaluations::to_var_bytes", "Evaluations::from_slice",
                       "Verifier::to_bytes", "Verifier::try_from_bytes", "Verifier::new", "VerifierKey Serializable",
                       "Proof::to_bytes", "Proof::from_bytes", "Prover::prove", "Verifier::verify"])
    run.bounds.append("circuit shapes (addition rows, public inputs, custom gates): " + ", ".join(map(str, shapes)) +
                      "; contents symbolic: 3 SRS draws, 11 selector constants, <= 20 blinder draws, 26 arbitrary "
                      "proof components, arbitrary public inputs; one label")
    run.outside.append("other circuit shapes and sizes; bit-level canonicity of the dependency's scalar and point "
                       "codecs (BlsScalar::from_bytes, G1Affine::from_bytes are run in tagged form); witness values "
                       "(concrete); byte strings that are not encodings (C17)")
    run.assumptions.append("a tagged symbolic scalar/point encodes to a slot that decodes to the same term (the "
                           "dependency's codecs are bijective on canonical encodings)")
