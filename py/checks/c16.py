"""C16 -- serialization round trips preserve keys, proofs and parameters.

The real encoders/decoders (`Prover::to_bytes/try_from_bytes`, `Verifier`,
`Proof`, `PublicParameters`, and the key/polynomial/evaluation codecs below
them) run on SYMBOLIC contents: the SRS secret and bases, every selector
constant of the compiled circuit and the prover's blinders are free variables,
so each 32/48/97-byte slot of an encoding carries a distinct term.  The claim
`decode(encode(x))` re-encodes to the same bytes, the decoded prover computes
the same proof terms from the same draws, and the decoded verifier evaluates
the same acceptance condition (same comparisons over the same terms, Fiat-
Shamir as a random oracle) therefore holds for EVERY value of those contents
at the explored circuit shapes.  Proof canonicity is checked on 1008 bytes of
arbitrary accepted components.

Deciding step: equality of hash-consed terms (the degenerate, syntactic case of
the field-identity query; no SMT call is needed when both sides are the same
term).  A flag that is false is replayed on the real build with concrete
values before it is reported.
"""
import json
import os

import framework as fw
import smt

SHAPES_QUICK = [(1, 1, 0), (1, 0, 0), (6, 2, 0), (40, 3, 0), (1, 1, 1)]
SHAPES_THOROUGH = SHAPES_QUICK + [(120, 5, 1), (500, 4, 0), (1030, 3, 0), (2100, 2, 0)]

FLAGS = ["pp_raw_roundtrip_identical", "pp_checked_roundtrip_identical", "arbitrary_proof_reencodes_to_itself",
         "prover_roundtrip_identical", "verifier_roundtrip_identical", "decoded_prover_same_proof",
         "proof_roundtrip_identical", "honest_proof_same_verdict", "honest_proof_same_condition",
         "arbitrary_proof_same_verdict", "arbitrary_proof_same_condition"]


def run(run):
    shapes = SHAPES_QUICK if run.tier == "quick" else SHAPES_THOROUGH
    table = []
    for shape in shapes:
        args = ["roundtrip"] + [str(x) for x in shape]
        sb = fw.run_driver(fw.SYM_BIN, args, run.seed)
        out = sb["outputs"]
        flags = out["flags"]
        row = {"adds": shape[0], "public_inputs": shape[1], "custom_gates": bool(shape[2]),
               "constraints": out["constraints"], "prover_bytes": out["prover_bytes"],
               "verifier_bytes": out["verifier_bytes"], "terms": out.get("nodes_in_arena"), "flags": flags}
        table.append(row)
        tag = f"n{out['constraints']}_pi{shape[1]}_c{shape[2]}"
        if out.get("nodes_in_arena", 0) < 1000:
            run.inconclusive.append(f"{tag}: contents are not symbolic (vacuous run)")
        for f in FLAGS:
            v = flags.get(f)
            o = fw.Obligation(f"{tag}/{f}", "identity/term-equality", [f"; symdrv {' '.join(args)}"], [], "unsat", 0)
            o.result = smt.Result("unsat" if v is True else "sat", {}, 0.0, "", "hash-consed term identity")
            o.result.script = ""
            run.obls.append(o)
            if v is True:
                continue
            # replay on the real build (concrete contents derived from the seed)
            rb = fw.run_driver(fw.REAL_BIN, args, run.seed)
            rv = rb["outputs"]["flags"].get(f)
            d = os.path.join(fw.OUT, "cex")
            os.makedirs(d, exist_ok=True)
            path = os.path.join(d, f"C16_{tag}_{f}.json")
            json.dump({"property": "C16", "driver": args, "seed": run.seed, "flag": f, "symbolic": v, "real": rv,
                       "all_flags_real": rb["outputs"]["flags"], "replayed": rv is not True}, open(path, "w"), indent=1)
            if rv is not True:
                run.violations.append((f"{tag}/{f}", path))
            else:
                run.inconclusive.append(f"{tag}/{f}: terms differ but the real build agrees at the seed's values")
        for k in ("decode_error", "prove_error"):
            if k in flags:
                run.inconclusive.append(f"{tag}: {k} {flags[k]}")
    run.extra["shapes"] = table
    run.validation["points"] += len(shapes)
    run.add_functions(["PublicParameters::to_raw_var_bytes", "PublicParameters::from_slice_unchecked",
                       "PublicParameters::to_var_bytes", "PublicParameters::from_slice", "CommitKey::to_raw_var_bytes",
                       "CommitKey::from_raw_var_bytes", "CommitKey::to_var_bytes", "CommitKey::from_slice",
                       "OpeningKey Serializable", "Prover::to_bytes", "Prover::try_from_bytes", "Prover::new",
                       "ProverKey::to_var_bytes", "ProverKey::from_slice", "Polynomial::to_var_bytes",
                       "Polynomial::from_slice", "Evaluations::to_var_bytes", "Evaluations::from_slice",
                       "Verifier::to_bytes", "Verifier::try_from_bytes", "Verifier::new", "VerifierKey Serializable",
                       "Proof::to_bytes", "Proof::from_bytes", "Prover::prove", "Verifier::verify"])
    run.bounds.append("circuit shapes (addition rows, public inputs, custom gates): " + ", ".join(map(str, shapes)) +
                      "; contents symbolic: 3 SRS draws, 11 selector constants, <= 20 blinder draws, 26 arbitrary "
                      "proof components, arbitrary public inputs; one label")
    run.outside.append("other circuit shapes and sizes; bit-level canonicity of the dependency's scalar and point "
                       "codecs (BlsScalar::from_bytes, G1Affine::from_bytes are run in tagged form); witness values "
                       "(concrete); byte strings that are not encodings (C17)")
    run.assumptions.append("a tagged symbolic scalar/point encodes to a slot that decodes to the same term (the "
                           "dependency's codecs are bijective on canonical encodings)")
