"""Shared plumbing for the gadget checks (engine X)."""
import framework as fw
import smt
import xengine as xe

_rowsem_cache = {}


def load_rowsem(run):
    """row semantics from the real widget code (sym `rows` driver), validated
    against the real build; split obligations are added to `run`."""
    sb = fw.run_driver(fw.SYM_BIN, ["rows"], run.seed)
    rb = fw.run_driver(fw.REAL_BIN, ["rows"], run.seed)
    ctx = smt.Ctx()
    nodes = ctx.from_nodes(sb["nodes"])
    run.validate(sb, rb, ctx, nodes)
    run.add_functions(sb["meta"]["functions"])
    return xe.RowSem(run, ctx, nodes, sb["outputs"])


def extract(run, args, env=None):
    from checks.common import real_at
    if env is not None:
        b = real_at(["extract"] + [str(a) for a in args], env, run.seed)
    else:
        b = fw.run_driver(fw.REAL_BIN, ["extract"] + [str(a) for a in args], run.seed)
    L = xe.Layout(b["outputs"]["layout"])
    if L.perm_mismatch is not None:
        # the real composer did not register a wire position in the permutation: that position is a
        # free wire for the prover whatever the rows say.  Reported straight from the real composer's
        # data (no model involved).
        import json
        import os
        d = os.path.join(fw.OUT, "cex")
        os.makedirs(d, exist_ok=True)
        tag = "_".join(str(a) for a in args)
        path = os.path.join(d, f"{run.prop}_permutation_{tag}.json")
        json.dump({"property": run.prop, "what": "wire positions of the emitted gates are not the ones registered in "
                   "the permutation (copy constraints)", "driver": ["extract"] + [str(a) for a in args], "env": env,
                   "detail": L.perm_mismatch, "replayed": True}, open(path, "w"), indent=1)
        key = f"permutation/{tag}"
        if not any(v[0] == key for v in run.violations):
            run.violations.append((key, path))
    return L, b


def honest_guard(run, name, rowsem, layout, timeout=None):
    """vacuity guard #1: the honest witness dumped by the extractor satisfies
    the SMT rows (expected sat)."""
    q = xe.Query()
    xe.encode_layout(q, rowsem, layout)
    for i, v in enumerate(layout.witnesses):
        nm = smt.vname(xe.wname(i))
        if nm in q.vars:
            q.add(f"(= {nm} {v})")
    return run.obligation(name, q.lines(), q.asserts, expect="sat", kind="vacuity/honest-witness",
                          timeout=timeout, get_model=False)


def range_patterns(run):
    pb = fw.run_driver(fw.REAL_BIN, ["extract_batch", "range_bits", "0", "256"], run.seed)
    return xe.RangePatterns(pb["outputs"]["layouts"])


def summary_lemmas(run, rowsem, patterns, widths, prefix="lemma/range"):
    """every range summary `value < 2^k` used by a query is re-proven in this
    run: rows(range_check(k)) and value >= 2^k is unsat (the C09 obligation)"""
    for k in sorted(set(widths)):
        L = patterns.pat[k][2]
        bounds, lem = xe.propagate_bounds(rowsem, L)
        run.bound_lemmas(f"{prefix}/w{k}", lem)
        q = xe.Query()
        xe.apply_bounds(q, bounds)
        xe.encode_layout(q, rowsem, L)
        x = q.var(xe.wname(L.inputs["x"]))
        q.add(f"(>= {x} {1 << k})")
        xi = L.inputs["x"]

        def violated(model, k=k, xi=xi):
            xv = mval(model, xi)
            return xv >= (1 << k), {"x": hex(xv), "width": k}
        # a failing summary lemma IS a range-check soundness violation: replayed end to end
        run.query(f"{prefix}/w{k}", q, "unsat", "lemma/range-summary",
                  replay=gadget_replay(run, ["range_bits", k], L, violated))


def gadget_replay(run, gadget_args, layout, violated, complete=None):
    """Replay of a gadget-soundness model through the real compiler, prover and
    verifier: reproduced iff the proof of the forged assignment verifies and
    `violated(model)` confirms the documented result is violated.

    Queries that use only a subset of the rows (premise weakening) return
    partial models; with `complete=(rowsem, pins)` a partial model that does
    not reproduce is first completed: the FULL layout is encoded, the witnesses
    listed in `pins` are fixed to the model's values and the solver is asked
    for a total assignment, which is then replayed."""
    def attempt(model):
        from checks.common import real_at
        env = {}
        for i in range(len(layout.witnesses)):
            v = model.get(smt.vname(xe.wname(i)))
            if v is not None:
                env[f"w{i}"] = "%064x" % (v % smt.R)
        rb = real_at(["prove_gadget"] + [str(a) for a in gadget_args], env, run.seed)
        o = rb["outputs"]
        bad, info = violated(model)
        return bool(o.get("verified")) and bad, {"gadget": gadget_args, "prover": o, "violated": info,
                                                 "env": env}

    def rp(model, complete=complete):
        ok, det = attempt(model)
        if ok or complete is None:
            return ok, det
        if complete[0] == "logic":
            # bind-query models do not constrain the logic chain: take the chain from the REAL
            # witness generator run on the model's accumulator values, keep the model elsewhere,
            # then fill range-block internals as in "blocks"
            _, rowsem, patterns, chain_rows, acc_a, acc_b, gadget = complete
            va = model.get(smt.vname(xe.wname(acc_a)), 0) % smt.R
            vb = model.get(smt.vname(xe.wname(acc_b)), 0) % smt.R
            lh, _ = extract(run, gadget, env={"a": "%064x" % va, "b": "%064x" % vb})
            full = dict(model)
            for r_ in chain_rows:
                for wi in layout.gates[r_][1]:
                    if wi not in (0, 1):
                        full[smt.vname(xe.wname(wi))] = lh.witnesses[wi]
            complete = ("blocks", rowsem, patterns)
            model = full
        if complete[0] == "blocks":
            # the partial model covers every row outside the summarised range blocks; the
            # internals of each block are filled in with the REAL witness generator run on
            # the block's (model) value
            _, rowsem, patterns = complete
            full = dict(model)
            for (s_, e_, k, w) in patterns.find_blocks(layout):
                v = model.get(smt.vname(xe.wname(w)))
                if v is None or e_ - s_ < 3 or k > 254:
                    continue
                mp, _m = patterns.match_at(layout, s_, k)
                lh, _ = extract(run, ["range_bits", k], env={"x": "%064x" % (v % smt.R)})
                for pa, big in mp.items():
                    key = smt.vname(xe.wname(big))
                    if key not in full:
                        full[key] = lh.witnesses[pa]
            ok2, det2 = attempt(full)
            det2["completed_from_partial_model"] = "internals from the real witness generator"
            return ok2, det2
        rowsem, pins = complete
        if pins == "all-in-model":
            pins = [i for i in range(len(layout.witnesses)) if smt.vname(xe.wname(i)) in model]
        q = xe.Query()
        xe.encode_layout(q, rowsem, layout)
        for i in pins:
            v = model.get(smt.vname(xe.wname(i)))
            if v is not None:
                q.add(f"(= {q.var(xe.wname(i))} {v % smt.R})")
        r = smt.check(q.lines(), q.asserts, "z3", 60, get_model=True)
        if r.status != "sat":
            det["completion"] = r.status
            return False, det
        ok2, det2 = attempt(r.model)
        det2["completed_from_partial_model"] = True
        return ok2, det2
    return rp


def mval(model, i):
    return model.get(smt.vname(xe.wname(i)), 0) % smt.R
