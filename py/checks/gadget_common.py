"""Shared plumbing for the gadget checks (engine X)."""
import framework as fw
import smt
import xengine as xe

_rowsem_cache = {}


def load_rowsem(run):
    """row semantics from the real widget code (sym `rows` driver), validated
    against the real build; split obligations are added to `run`."""
    sb = fw.run_driver(fw.SYM_BIN, ["rows"], run.seed)
    rb = fw.run_driver(fw.REAL_BIN, ["rows"], run.seed)
    ctx = smt.Ctx()
    nodes = ctx.from_nodes(sb["nodes"])
    run.validate(sb, rb, ctx, nodes)
    run.add_functions(sb["meta"]["functions"])
    return xe.RowSem(run, ctx, nodes, sb["outputs"])


def extract(run, args, env=None):
    from checks.common import real_at
    if env is not None:
        b = real_at(["extract"] + [str(a) for a in args], env, run.seed)
    else:
        b = fw.run_driver(fw.REAL_BIN, ["extract"] + [str(a) for a in args], run.seed)
    return xe.Layout(b["outputs"]["layout"]), b


def honest_guard(run, name, rowsem, layout, timeout=None):
    """vacuity guard #1: the honest witness dumped by the extractor satisfies
    the SMT rows (expected sat)."""
    q = xe.Query()
    xe.encode_layout(q, rowsem, layout)
    for i, v in enumerate(layout.witnesses):
        nm = smt.vname(xe.wname(i))
        if nm in q.vars:
            q.add(f"(= {nm} {v})")
    return run.obligation(name, q.lines(), q.asserts, expect="sat", kind="vacuity/honest-witness",
                          timeout=timeout, get_model=False)
