"""Check framework: obligations, evidence, replay, exit codes.

exit 0  every obligation discharged (unsat / identity proven) and every
        vacuity twin reachable
exit 1  + `VIOLATION property=<id> replay=<path>`: a counterexample that
        reproduced against the real build
exit 2  inconclusive (timeout / unknown / solver error / non-reproducing model
        / build failure) -- never reported as success
"""
import concurrent.futures as cf
import json
import os
import subprocess
import sys
import time

import smt

VERIF = os.path.dirname(os.path.dirname(os.path.abspath(__file__)))
CACHE = os.path.join(VERIF, ".cache")
OUT = os.path.join(VERIF, "out")
SYM_BIN = os.path.join(CACHE, "sym", "debug", "symdrv")
REAL_BIN = os.path.join(CACHE, "real", "debug", "realdrv")

STANDING_ASSUMPTIONS = [
    "r (BLS12-381 scalar modulus) and r_J (JubJub subgroup order) are prime: "
    "integral-domain axiom instances u*v=0 => u=0 or v=0 are sound",
    "the verification copy of the dependency dusk-bls12_381 behaves like the "
    "registry crate on untagged values and records operations on tagged values "
    "faithfully (checked on every run by differential evaluation against the "
    "unpatched build at seed-derived points)",
    "rustc, z3 (cross-checked by /usr/bin/z3 4.8.12 in the thorough tier), and "
    "the hand-written specs under /verif/py/spec",
    "hooks (cfg plonk_verif) add no logic of their own",
]


def build(which=("sym", "real")):
    """(Re)build the driver workspaces from /repo's current working tree."""
    t0 = time.time()
    procs = []
    for w in which:
        d = os.path.join(VERIF, w)
        lock = os.path.join(d, "Cargo.lock")
        if not os.path.exists(lock):
            subprocess.run(["cp", "/repo/Cargo.lock", lock], check=False)
        env = dict(os.environ, CARGO_NET_OFFLINE="true")
        procs.append((w, subprocess.Popen(
            ["cargo", "build", "--offline", "-q"], cwd=d, env=env,
            stdout=subprocess.PIPE, stderr=subprocess.STDOUT, text=True)))
    ok = True
    logs = {}
    for w, p in procs:
        out, _ = p.communicate()
        logs[w] = out
        if p.returncode != 0:
            ok = False
    return ok, logs, time.time() - t0


def run_driver(binpath, args, seed=0, env_file=None, extra_env=None, timeout=3600):
    env = dict(os.environ, VERIF_SEED=str(seed), RAYON_NUM_THREADS="1")
    if env_file:
        env["VERIF_ENV"] = env_file
    if extra_env:
        env.update(extra_env)
    p = subprocess.run([binpath] + list(args), capture_output=True, text=True,
                       env=env, timeout=timeout)
    if p.returncode != 0:
        raise RuntimeError(f"driver {os.path.basename(binpath)} {args} failed "
                           f"(rc={p.returncode}): {p.stderr[-2000:]}")
    return json.loads(p.stdout)


class Obligation:
    def __init__(self, name, kind, lines, asserts, expect, timeout, meta=None,
                 replay=None, get_model=True, batch=False):
        self.batch = batch
        self.name, self.kind = name, kind
        self.lines, self.asserts = lines, asserts
        self.expect = expect          # "unsat" or "sat"
        self.timeout = timeout
        self.meta = meta or {}
        self.replay = replay          # callable(model) -> (reproduced: bool, info)
        self.get_model = get_model
        self.result = None
        self.cross = {}


class Run:
    def __init__(self, prop, tier, seed, level="other"):
        self.prop, self.tier, self.seed, self.level = prop, tier, seed, level
        self.t0 = time.time()
        self.obls = []
        self.functions = []
        self.bounds = []
        self.outside = []
        self.assumptions = list(STANDING_ASSUMPTIONS)
        self.notes = []
        self.validation = {"points": 0, "outputs_compared": 0, "mismatches": 0}
        self.inconclusive = []
        self.violations = []
        self.extra = {}
        self._hint_seen = set()
        self.solver_timeout = 60 if tier == "quick" else 600
        self.cross_solvers = [] if tier == "quick" else ["z3old"]
        os.makedirs(OUT, exist_ok=True)

    # ------------------------------------------------------------ building
    def add_functions(self, fs):
        for f in fs:
            if f not in self.functions:
                self.functions.append(f)

    def obligation(self, name, lines, asserts, expect="unsat", kind="identity",
                   timeout=None, meta=None, replay=None, get_model=True, batch=False):
        o = Obligation(name, kind, lines, asserts, expect,
                       timeout or self.solver_timeout, meta, replay, get_model, batch)
        self.obls.append(o)
        return o

    def identity(self, name, lhs, rhs, assumptions=(), replay=None, meta=None, extra_roots=()):
        """lhs =_F rhs for all values (Type I).  Handles Inv by cross
        multiplication (fractions); `assumptions` are extra SMT assertions."""
        ctx = lhs.ctx
        if smt.has_inv([lhs, rhs]):
            (ln, ld), (rn, rd) = smt.to_frac(ctx, [lhs, rhs])
            a, b = ln * rd, rn * ld
        else:
            a, b = lhs, rhs
        lines = smt.smt_defs([a, b] + list(extra_roots))
        goal = f"(not (= (mod (- {smt.ref(a)} {smt.ref(b)}) {smt.R}) 0))"
        o = self.obligation(name, lines, list(assumptions) + [goal], "unsat",
                            "identity", meta=meta, replay=replay)
        o.exprs = (a, b)
        return o

    def query(self, name, q, expect="unsat", kind="gadget", **kw):
        """queue an xengine.Query; its factorisation hints become separate
        Type-I obligations (deduplicated)"""
        for (e, prod) in q.hints:
            key = (e.id, prod.id)
            if key not in self._hint_seen:
                self._hint_seen.add(key)
                self.identity(f"hint/factor/{e.id}_{prod.id}", e, prod)
        return self.obligation(name, q.lines(), q.asserts, expect, kind, **kw)

    def bound_lemmas(self, prefix, lemmas):
        """queue the solver-checked lemmas of xengine.propagate_bounds"""
        for nm, lq in lemmas:
            for (e, prod) in lq.hints:
                key = (e.id, prod.id)
                if key not in self._hint_seen:
                    self._hint_seen.add(key)
                    self.identity(f"hint/factor/{e.id}_{prod.id}", e, prod)
            self.obligation(f"{prefix}/bound/{nm}", lq.lines(), lq.asserts, "unsat", "lemma/bound",
                            get_model=False, batch=True)

    def validate(self, sym_bundle, real_bundle, ctx=None, nodes=None):
        """Translator validation: evaluate the symbolic bundle at the real
        build's variable assignment, compare every scalar output."""
        if ctx is None:
            ctx = smt.Ctx()
            nodes = ctx.from_nodes(sym_bundle["nodes"])
        env = {k: int(v, 16) for k, v in real_bundle["env"].items()}
        flat_s, flat_r = [], []

        def walk(s, r, path):
            if isinstance(s, dict):
                if set(s.keys()) != set(r.keys()):
                    raise RuntimeError(f"validation: structure differs at {path}")
                for k in s:
                    walk(s[k], r[k], path + "/" + k)
            elif isinstance(s, list):
                if not isinstance(r, list) or len(s) != len(r):
                    raise RuntimeError(f"validation: shape differs at {path}: {s!r:.100} vs {r!r:.100}")
                for i, (x, y) in enumerate(zip(s, r)):
                    walk(x, y, f"{path}[{i}]")
            elif isinstance(s, bool) or s is None or isinstance(s, str) and not isinstance(r, str):
                if s != r:
                    raise RuntimeError(f"validation: value differs at {path}: {s} vs {r}")
            elif isinstance(s, int) and isinstance(r, str):
                flat_s.append((path, s))
                flat_r.append(int(r, 16))
            elif s != r:
                raise RuntimeError(f"validation: value differs at {path}: {s!r} vs {r!r}")

        walk(sym_bundle["outputs"], real_bundle["outputs"], "")
        roots = [nodes[i] for _, i in flat_s]
        val = smt.evaluate(roots, env)
        mism = []
        for (path, i), rv in zip(flat_s, flat_r):
            if val[nodes[i].id] != rv:
                mism.append(path)
        self.validation["points"] += 1
        self.validation["outputs_compared"] += len(flat_s)
        self.validation["mismatches"] += len(mism)
        if mism:
            self.inconclusive.append(
                f"translator validation failed at {mism[:5]} (symbolic dispatch or encoder bug)")
        return not mism

    # ------------------------------------------------------------ solving
    def _solve(self, o):
        if o.lines and o.lines[0] == "; QF_BV":
            # portfolio: integer encoding of the bit-vector query first, bit-blasting second
            for solver, t in (("cvc5int", min(o.timeout, 30)), ("z3", o.timeout)):
                r = smt.check(o.lines, o.asserts, solver, t, get_model=False)
                if r.status in ("sat", "unsat"):
                    break
        else:
            r = smt.check(o.lines, o.asserts, "z3", o.timeout, get_model=o.get_model)
        o.result = r
        if r.status in ("sat", "unsat"):
            for cs in self.cross_solvers:
                # the second solver is an auxiliary cross-check: capped at 60 s per obligation
                c = smt.check(o.lines, o.asserts, cs, min(o.timeout, 60), get_model=False)
                o.cross[cs] = c.status
        return o

    def _solve_chunk(self, chunk):
        rs = smt.check_batch([(o.lines, o.asserts) for o in chunk], "z3", chunk[0].timeout)
        for o, r in zip(chunk, rs):
            r.script = ""
            o.result = r
        bad = [o for o in chunk if o.result.status != o.expect]
        for o in bad:   # re-run individually (models, precise status)
            o.result = None
            self._solve(o)
        if self.cross_solvers:
            for cs in self.cross_solvers:
                cr = smt.check_batch([(o.lines, o.asserts) for o in chunk], cs, min(chunk[0].timeout, 60))
                for o, r in zip(chunk, cr):
                    o.cross[cs] = r.status
        return chunk

    def solve_all(self, workers=None):
        workers = workers or min(16, os.cpu_count() or 4)
        pending = [o for o in self.obls if o.result is None]
        singles = [o for o in pending if not o.batch]
        batch = [o for o in pending if o.batch]
        chunks = [batch[i:i + 48] for i in range(0, len(batch), 48)]
        with cf.ThreadPoolExecutor(max_workers=workers) as ex:
            f1 = [ex.submit(self._solve, o) for o in singles]
            f2 = [ex.submit(self._solve_chunk, c) for c in chunks]
            for f in f1 + f2:
                f.result()
        for o in pending:
            self._judge(o)

    def _hinted_counterexample(self, o):
        """an identity the solver could not decide: look for a point where the two sides differ
        (untrusted hint, plain evaluation) and let the solver confirm it on the pinned query"""
        import random
        a, b = o.exprs
        names = smt.variables([a, b])
        rnd = random.Random(self.seed * 1009 + 3)
        for _ in range(4):
            env = {n: rnd.randrange(1, smt.R) for n in names}
            val = smt.evaluate([a, b], env)
            if val[a.id] is not None and val[b.id] is not None and val[a.id] != val[b.id]:
                pins = [f"(= {smt.vname(n)} {v})" for n, v in env.items()]
                r = smt.check(o.lines, o.asserts + pins, "z3", 60, get_model=True)
                if r.status == "sat":
                    return r
        return None

    def _judge(self, o):
        r = o.result
        if r.status in ("unknown", "timeout") and o.expect == "unsat" and getattr(o, "exprs", None) is not None \
                and not getattr(o, "optional", False):
            r2 = self._hinted_counterexample(o)
            if r2 is not None:
                o.result = r = r2
        for cs, st in o.cross.items():
            if st in ("sat", "unsat") and st != r.status:
                self.inconclusive.append(f"{o.name}: solvers disagree (z3={r.status}, {cs}={st})")
                return
        if r.status == o.expect:
            return
        if r.status == "unsat" and o.expect == "sat" and o.replay is not None:
            # a non-vanishing / satisfiability claim refuted by the solver: replay decides
            try:
                ok, detail = o.replay({})
            except Exception as e:
                ok, detail = False, f"replay error: {e}"
            info = {"obligation": o.name, "kind": o.kind, "meta": o.meta, "replay_detail": detail,
                    "replayed": ok, "solver": "unsat where a satisfying point was required"}
            path = self._write_cex(o, info)
            if ok:
                self.violations.append((o.name, path))
            else:
                self.inconclusive.append(f"{o.name}: required witness does not exist (unsat) and the replay "
                                         f"did not reproduce a violation: {str(detail)[:300]}")
            return
        if r.status in ("sat", "unsat") and o.expect == "sat":
            # vacuity twin not reachable: the harness is wrong, not the code
            self.inconclusive.append(f"{o.name}: reachability witness came back {r.status}")
            return
        if r.status == "sat" and o.expect == "unsat":
            info = {"obligation": o.name, "kind": o.kind, "model": {k: hex(v % smt.R) for k, v in r.model.items()},
                    "meta": o.meta}
            if o.replay is None:
                self.inconclusive.append(f"{o.name}: counterexample without replay")
                info["replayed"] = False
                self._write_cex(o, info)
                return
            try:
                ok, detail = o.replay(r.model)
            except Exception as e:  # replay machinery failure
                ok, detail = False, f"replay error: {e}"
            info["replay_detail"] = detail
            info["replayed"] = ok
            path = self._write_cex(o, info)
            if ok:
                self.violations.append((o.name, path))
            else:
                self.inconclusive.append(f"{o.name}: model did not reproduce on the real build "
                                         f"(encoding or spec suspect): {str(detail)[:300]}")
            return
        if getattr(o, "optional", False) and r.status in ("unknown", "timeout"):
            self.extra["optional_undecided"] = self.extra.get("optional_undecided", 0) + 1
            self.extra.setdefault("optional_undecided_names", []).append(o.name)
            return
        self.inconclusive.append(f"{o.name}: solver answered {r.status} after {r.secs:.1f}s")

    def _write_cex(self, o, info):
        d = os.path.join(OUT, "cex")
        os.makedirs(d, exist_ok=True)
        safe = "".join(c if c.isalnum() or c in "-_." else "_" for c in o.name)
        path = os.path.join(d, f"{self.prop}_{safe}.json")
        info["property"] = self.prop
        info["smt"] = getattr(o.result, "script", "")[:200000]
        with open(path, "w") as f:
            json.dump(info, f, indent=1)
        return path

    # ------------------------------------------------------------ reporting
    def _solvers_used(self):
        names = {"z3": "z3 5.1.0 (z3-new -in)", "cvc5int": "cvc5 1.0 --solve-bv-as-int=sum", "cvc5": "cvc5 1.0",
                 "z3old": "z3 4.8.12"}
        cnt = {}
        for o in self.obls:
            sv = getattr(o.result, "solver", None) if o.result is not None else None
            if sv:
                cnt[names.get(sv, sv)] = cnt.get(names.get(sv, sv), 0) + 1
        if not cnt:
            return "z3 5.1.0 (z3-new -in)"
        return "; ".join(f"{k}: {v} obligations" for k, v in sorted(cnt.items(), key=lambda kv: -kv[1]))

    def finish(self, known_findings=None):
        self.solve_all()
        discharged = sum(1 for o in self.obls if o.result and o.result.status == o.expect
                         and not any(i.startswith(o.name + ":") for i in self.inconclusive))
        solver_time = sum(o.result.secs for o in self.obls if o.result)
        samples = []
        for o in self.obls[:3] + self.obls[-2:]:
            txt = "\n".join(o.lines[-12:] + [f"(assert {a})" for a in o.asserts[-6:]])
            samples.append({"name": o.name, "kind": o.kind, "expect": o.expect,
                            "status": o.result.status if o.result else None,
                            "smt_tail": txt[-1500:]})
        kinds = {}
        for o in self.obls:
            kinds[o.kind] = kinds.get(o.kind, 0) + 1
        cov = {
            "explanation": (
                "Solver-based checking of the real code: the functions listed under "
                "functions_encoded were executed on a symbolic field (terms recorded by the "
                "verification copy of dusk-bls12_381) or extracted from the real composer; "
                "each obligation is an SMT query over the integers modulo r whose `unsat` "
                "answer means the assertion holds for every value of every free variable "
                "inside the stated bounds. " + " ".join(self.notes)),
            "obligations": len(self.obls),
            "discharged": discharged,
            "obligation_kinds": kinds,
            "functions_encoded": self.functions,
            "bounds": self.bounds,
            "outside_the_claim": self.outside,
            "solver": self._solvers_used() + (", cross-checked with /usr/bin/z3 4.8.12" if self.cross_solvers else ""),
            "solver_timeout_s": self.solver_timeout,
            "solver_time_s": round(solver_time, 2),
            "translator_validation": self.validation,
            "inconclusive": self.inconclusive[:50],
            "slowest_obligations": [[o.name, round(o.result.secs, 2)] for o in
                                    sorted([o for o in self.obls if o.result], key=lambda o: -o.result.secs)[:5]],
            "evaluations": max(len(self.obls), 1),
            "distinct_nontrivial": max(len({o.name for o in self.obls}), 0),
            "rule": "one evaluation = one SMT obligation (distinct by name; non-trivial = contains at least one free variable)",
            "samples": samples or [{"note": "no obligations"}],
            "checker_cmd": f"./check {self.prop} --tier {self.tier}",
            "trusted_base": self.assumptions,
        }
        cov.update(self.extra)
        ev = {
            "property_id": self.prop,
            "tier": self.tier,
            "seed": self.seed,
            "level": self.level,
            "coverage": cov,
            "assumptions": self.assumptions,
            "wall_s": round(time.time() - self.t0, 2),
            "violations": len(self.violations),
        }
        os.makedirs(os.path.join(VERIF, "evidence"), exist_ok=True)
        with open(os.path.join(VERIF, "evidence", f"{self.prop}.json"), "w") as f:
            json.dump(ev, f, indent=1)
        known_findings = known_findings or []
        rc = 0
        for name, path in self.violations:
            kf = [k for k in known_findings if k.get("status") == "open" and k["property"] == self.prop
                  and k["match"] in name]
            if kf:
                print(f"KNOWN-FINDING: property={self.prop} {kf[0]['what']}")
            else:
                print(f"VIOLATION property={self.prop} replay={path}")
                rc = 1
        if rc == 0 and self.inconclusive:
            for i in self.inconclusive[:20]:
                print(f"INCONCLUSIVE {self.prop}: {i}")
            rc = 2
        print(f"{self.prop} [{self.tier}] obligations={len(self.obls)} discharged={discharged} "
              f"violations={len(self.violations)} inconclusive={len(self.inconclusive)} "
              f"solver_time={solver_time:.1f}s wall={time.time()-self.t0:.1f}s")
        return rc


def load_known_findings():
    p = os.path.join(VERIF, "known_findings.json")
    if os.path.exists(p):
        return json.load(open(p)).get("findings", [])
    return []
