//! Protocol-level drivers: the real verifier (public API only: a `Verifier`
//! and a `Proof` decoded from byte strings whose group elements and scalars
//! are symbolic), KZG, prover pieces.

use dusk_bls12_381::{G1Affine, G2Affine};
use dusk_bytes::Serializable;
use dusk_plonk::prelude::*;
use serde_json::{json, Value};

use crate::{BlsScalar, Ctx};

pub const VK_COMMS: [&str; 15] = [
    "vk_q_m", "vk_q_l", "vk_q_r", "vk_q_o", "vk_q_f", "vk_q_c", "vk_q_arith", "vk_q_logic", "vk_q_range",
    "vk_q_fixed", "vk_q_var", "vk_s1", "vk_s2", "vk_s3", "vk_s4",
];
pub const PROOF_COMMS: [&str; 11] = [
    "a_comm", "b_comm", "c_comm", "d_comm", "z_comm", "t_low", "t_mid", "t_high", "t_fourth", "w_z", "w_zw",
];
pub const PROOF_EVALS: [&str; 15] = [
    "a_eval", "b_eval", "c_eval", "d_eval", "a_w_eval", "b_w_eval", "d_w_eval", "q_arith_eval", "q_c_eval",
    "q_l_eval", "q_r_eval", "s1_eval", "s2_eval", "s3_eval", "z_eval",
];

/// G1 element with discrete log `ctx.var(name)` (w.r.t. the G1 generator)
pub fn g1(ctx: &mut Ctx, name: &str) -> G1Affine {
    let s = ctx.var(name);
    #[cfg(feature = "sym")]
    {
        if ctx.concrete {
            return G1Affine::from(G1Affine::generator() * s);
        }
        G1Affine::sym_new(dusk_bls12_381::sym::id_of(&s))
    }
    #[cfg(not(feature = "sym"))]
    {
        G1Affine::from(G1Affine::generator() * s)
    }
}

/// G2 element with discrete log `ctx.var(name)` (w.r.t. the G2 generator)
pub fn g2(ctx: &mut Ctx, name: &str) -> G2Affine {
    let s = ctx.var(name);
    #[cfg(feature = "sym")]
    {
        if ctx.concrete {
            return G2Affine::from(G2Affine::generator() * s);
        }
        G2Affine::sym_new(dusk_bls12_381::sym::id_of(&s))
    }
    #[cfg(not(feature = "sym"))]
    {
        G2Affine::from(G2Affine::generator() * s)
    }
}

pub fn verifier_bytes(ctx: &mut Ctx, label: &[u8], n: usize, pi_rows: &[usize]) -> Vec<u8> {
    let mut vk = vec![0u8; 20 * 48 + 8];
    vk[..8].copy_from_slice(&(n as u64).to_bytes());
    for (i, name) in VK_COMMS.iter().enumerate() {
        let c = g1(ctx, name);
        vk[8 + 48 * i..8 + 48 * (i + 1)].copy_from_slice(&c.to_bytes());
    }
    let mut ok = vec![];
    ok.extend_from_slice(&g1(ctx, "ok_g").to_bytes());
    ok.extend_from_slice(&g2(ctx, "ok_h").to_bytes());
    ok.extend_from_slice(&g2(ctx, "ok_xh").to_bytes());
    let size = n.next_power_of_two();
    let mut b = vec![];
    for v in [label.len(), vk.len(), ok.len(), pi_rows.len(), size, n] {
        b.extend((v as u64).to_be_bytes());
    }
    b.extend_from_slice(label);
    b.extend(vk);
    b.extend(ok);
    for r in pi_rows {
        b.extend((*r as u64).to_be_bytes());
    }
    b
}

pub fn proof_bytes(ctx: &mut Ctx) -> [u8; 1008] {
    let mut b = [0u8; 1008];
    for (i, name) in PROOF_COMMS.iter().enumerate() {
        let c = g1(ctx, name);
        b[48 * i..48 * (i + 1)].copy_from_slice(&c.to_bytes());
    }
    for (i, name) in PROOF_EVALS.iter().enumerate() {
        let s = ctx.var(name);
        b[528 + 32 * i..528 + 32 * (i + 1)].copy_from_slice(&s.to_bytes());
    }
    b
}

fn version(v: &str) -> PlonkVersion {
    match v {
        "1" => PlonkVersion::V1,
        "2" => PlonkVersion::V2,
        _ => PlonkVersion::V3,
    }
}

/// one verifier run; returns a JSON record
fn verify_once(ctx: &mut Ctx, n: usize, pi_rows: &[usize], npi_given: usize, ver: &str, label: &[u8]) -> Value {
    let vb = verifier_bytes(ctx, label, n, pi_rows);
    let verifier = match Verifier::try_from_bytes(&vb) {
        Ok(v) => v,
        Err(e) => return json!({"stage": "verifier_decode", "result": format!("Err({:?})", e)}),
    };
    let pb = proof_bytes(ctx);
    let proof = match Proof::from_bytes(&pb) {
        Ok(p) => p,
        Err(e) => return json!({"stage": "proof_decode", "result": format!("Err({:?})", e)}),
    };
    let pis: Vec<BlsScalar> = (0..npi_given).map(|i| ctx.var(&format!("pi{}", i))).collect();
    let r = verifier.verify_with_version(&proof, &pis, version(ver));
    json!({"stage": "verify", "result": match r { Ok(()) => "Ok".to_string(), Err(e) => format!("Err({:?})", e) }})
}

/// `verify_labels <hex,hex,...>`: several verifiers with different labels are built
/// and used IN ONE PROCESS, in the given order (process-global state such as label
/// caches is part of the behaviour); reports the label bytes each transcript absorbed.
pub fn run_verify_labels(ctx: &mut Ctx, args: &[String]) {
    let labels: Vec<Vec<u8>> = args[0]
        .split(',')
        .map(|h| (0..h.len() / 2).map(|i| u8::from_str_radix(&h[2 * i..2 * i + 2], 16).unwrap()).collect())
        .collect();
    #[cfg(feature = "sym")]
    dusk_bls12_381::sym::set_transcript_symbolic(true);
    let mut out = vec![];
    for l in labels.iter() {
        #[cfg(feature = "sym")]
        {
            let (res, _) = dusk_bls12_381::sym::explore(1, false, || verify_once(ctx, 4, &[1], 1, "3", l));
            for (_t, _p, r, ev) in res {
                let first = ev.iter().filter_map(|e| serde_json::from_str::<Value>(e).ok()).next();
                let absorbed = first
                    .and_then(|e| e.get("history").and_then(|h| h.get(0)).cloned())
                    .unwrap_or(Value::Null);
                out.push(json!({"label": l.iter().map(|b| format!("{:02x}", b)).collect::<String>(),
                                "first_absorbed": absorbed,
                                "result": r.ok()}));
            }
        }
        #[cfg(not(feature = "sym"))]
        {
            let r = verify_once(ctx, 4, &[1], 1, "3", l);
            out.push(json!({"label": l.iter().map(|b| format!("{:02x}", b)).collect::<String>(), "result": r}));
        }
    }
    ctx.out_json("labels", Value::Array(out));
}

/// `verify <n> <pi_rows comma list or -> <npi_given> <version> [all]`
pub fn run_verify(ctx: &mut Ctx, args: &[String]) {
    let n: usize = args[0].parse().unwrap();
    let pi_rows: Vec<usize> = if args[1] == "-" {
        vec![]
    } else {
        args[1].split(',').map(|x| x.parse().unwrap()).collect()
    };
    let npi: usize = args[2].parse().unwrap();
    let ver = args[3].clone();
    let all = args.get(4).map(|s| s == "all").unwrap_or(false);
    let label = b"verif-label".to_vec();
    #[cfg(feature = "sym")]
    if ctx.concrete {
        // replay: real verifier code, dependency copy on concrete values,
        // random oracle scripted from the environment (keys ch_<label>_<hash>)
        dusk_bls12_381::sym::set_transcript_symbolic(true);
        let mut script = vec![];
        if let Some(env) = ctx.env_override.clone() {
            for (k, v) in env.iter() {
                if let (Some(rest), Value::String(h)) = (k.strip_prefix("ch_"), v) {
                    let lab = match rest.rfind('_') {
                        Some(i) => &rest[..i],
                        None => rest,
                    };
                    script.push((lab.to_string(), crate::from_hex(h)));
                }
            }
        }
        dusk_bls12_381::sym::set_challenge_script(script);
        let r = std::panic::catch_unwind(std::panic::AssertUnwindSafe(|| {
            verify_once(ctx, n, &pi_rows, npi, &ver, &label)
        }));
        let v = match r {
            Ok(v) => json!({"result": v, "panic": Value::Null}),
            Err(_) => json!({"result": Value::Null, "panic": "panic"}),
        };
        ctx.out_json("paths", json!([v]));
    } else {
        dusk_bls12_381::sym::set_transcript_symbolic(true);
        let (res, complete) =
            dusk_bls12_381::sym::explore(64, all, || verify_once(ctx, n, &pi_rows, npi, &ver, &label));
        let mut paths = vec![];
        for (taken, path, r, ev) in res {
            let (result, panic) = match r {
                Ok(v) => (v, Value::Null),
                Err(m) => (Value::Null, json!(m)),
            };
            let events: Vec<Value> = ev.iter().map(|e| serde_json::from_str(e).unwrap_or(json!(e))).collect();
            paths.push(json!({"decisions": taken, "path": crate::path_json(&path), "result": result,
                              "panic": panic, "events": events}));
        }
        ctx.out_json("paths", Value::Array(paths));
        ctx.meta.insert("complete".into(), json!(complete));
    }
    #[cfg(not(feature = "sym"))]
    {
        let _ = all;
        let r = std::panic::catch_unwind(std::panic::AssertUnwindSafe(|| {
            verify_once(ctx, n, &pi_rows, npi, &ver, &label)
        }));
        let v = match r {
            Ok(v) => json!({"result": v, "panic": Value::Null}),
            Err(_) => json!({"result": Value::Null, "panic": "panic"}),
        };
        ctx.out_json("paths", json!([v]));
    }
    ctx.meta.insert(
        "functions".into(),
        json!(["Verifier::try_from_bytes", "Verifier::new", "Transcript::base", "Transcript::base_v3",
               "VerifierKey::seed_transcript_inner", "VerifierKey::from_slice", "OpeningKey::from_slice",
               "Proof::from_bytes", "Verifier::verify_with_version", "Proof::verify", "Proof::verify_legacy",
               "Proof::append_linearization_commitment_terms", "widget::*::VerifierKey::compute_linearization_commitment",
               "compute_lagrange_and_barycentric_evaluations", "util::batch_inversion",
               "EvaluationDomain::evaluate_vanishing_polynomial", "TranscriptProtocol for merlin::Transcript"]),
    );
}

// ---------------------------------------------------------------------------
// Prover with symbolic blinders (C06) / symbolic SRS
// ---------------------------------------------------------------------------

/// Small concrete circuits for prover runs.
#[derive(Clone, Default)]
pub struct TinyCircuit {
    pub kind: usize,
    pub a: BlsScalar,
    pub b: BlsScalar,
}

impl Circuit for TinyCircuit {
    fn circuit(&self, c: &mut Composer) -> Result<(), Error> {
        match self.kind {
            0 => {}
            1 => {
                // a*b = pi, a + b = s (s unconstrained further)
                let a = c.append_witness(self.a);
                let b = c.append_witness(self.b);
                let m = c.gate_mul(Constraint::new().mult(1).a(a).b(b));
                c.assert_equal_constant(m, BlsScalar::zero(), Some(self.a * self.b));
                let _ = c.gate_add(Constraint::new().left(1).right(1).a(a).b(b));
            }
            3 => {
                // a long chain of additions: more than 2048 gates, so that the evaluation
                // domain has 4096 points (the size from which the FFTs run in parallel)
                let mut acc = c.append_witness(self.a);
                let b = c.append_witness(self.b);
                for _ in 0..2100 {
                    acc = c.gate_add(Constraint::new().left(1).right(1).a(acc).b(b));
                }
            }
            _ => {
                // custom gates: a 4-bit range check and a 1-pair AND
                let a = c.append_witness(BlsScalar::from(11u64));
                let b = c.append_witness(BlsScalar::from(6u64));
                c.component_range_bits::<4>(a);
                let x = c.append_logic_and::<1>(a, b);
                c.assert_equal_constant(x, BlsScalar::from(2u64), None);
            }
        }
        Ok(())
    }
}

fn seeded(seed: u64, name: &str) -> BlsScalar {
    crate::concrete_from_name(seed, name)
}

pub const PROVER_CHALLENGES: [&str; 11] = [
    "beta", "gamma", "alpha", "range_separation_challenge", "logic_separation_challenge",
    "fixed_base_separation_challenge", "variable_base_separation_challenge", "z_challenge", "v_challenge",
    "v_w_challenge", "u_challenge",
];

/// `prove <kind>`: the real `Compiler::compile_with_circuit` + `Prover::prove` on
/// a concrete circuit and witness, with a symbolic SRS (secret x, bases), the
/// 14 blinders symbolic (`blind0..13`) and the Fiat-Shamir challenges scripted
/// to seed-derived concrete values.
pub fn run_prove(ctx: &mut Ctx, args: &[String]) {
    use crate::kernels::{g1_dlog, ScriptedRng};
    let kind: usize = args[0].parse().unwrap();
    let circuit = TinyCircuit { kind, a: BlsScalar::from(3u64), b: BlsScalar::from(5u64) };
    let mut probe = Composer::initialized();
    circuit.circuit(&mut probe).unwrap();
    let n = probe.constraints();
    #[cfg(feature = "sym")]
    {
        dusk_bls12_381::sym::set_transcript_symbolic(true);
        let script: Vec<(String, BlsScalar)> =
            PROVER_CHALLENGES.iter().map(|l| (l.to_string(), seeded(ctx.seed, l))).collect();
        dusk_bls12_381::sym::set_challenge_script(script);
    }
    let mut srs_rng = ScriptedRng::with_prefix(ctx, "srs", 8);
    let pp = PublicParameters::setup((n + 6).next_power_of_two(), &mut srs_rng).expect("setup");
    let (prover, verifier) = Compiler::compile_with_circuit(&pp, b"verif-prove", &circuit).expect("compile");
    let mut rng = ScriptedRng::with_prefix(ctx, "blind", 20);
    // VERIF_ZERO_BLINDERS=k[,k..]: these draws are the concrete scalar zero (the degenerate
    // draws of the masking scalars), all other draws stay symbolic
    if let Ok(z) = std::env::var("VERIF_ZERO_BLINDERS") {
        for k in z.split(',').filter_map(|x| x.parse::<usize>().ok()) {
            rng.values[k] = BlsScalar::zero();
        }
    }
    #[cfg(feature = "sym")]
    {
        // an explicit decision prefix for the symbolic comparisons of the proving run
        // (VERIF_SCRIPT=0,0,1,...): used to visit the paths on which a blinder is zero
        let script: Vec<bool> = std::env::var("VERIF_SCRIPT")
            .ok()
            .map(|s| s.split(',').filter(|x| !x.is_empty()).map(|x| x == "1").collect())
            .unwrap_or_default();
        dusk_bls12_381::sym::begin_run(&script, false);
    }
    let r = prover.prove(&mut rng, &circuit);
    ctx.out_json("rng_log", json!(rng.log));
    ctx.out_json("n", json!(n));
    let chals: serde_json::Map<String, Value> =
        PROVER_CHALLENGES.iter().map(|l| (l.to_string(), json!(crate::hex(&seeded(ctx.seed, l))))).collect();
    ctx.out_json("challenges", Value::Object(chals));
    // VERIF_DEPS_ONLY: report, per proof element, only the set of blinders it depends on
    // (structural reachability in the term arena); used for large domains where the full
    // term dump would be too big
    #[cfg(feature = "sym")]
    if std::env::var("VERIF_DEPS_ONLY").is_ok() {
        if let Ok((proof, _)) = &r {
            let b = proof.to_bytes();
            let mut deps = serde_json::Map::new();
            for (i, name) in PROOF_COMMS.iter().enumerate() {
                let mut c = [0u8; 48];
                c.copy_from_slice(&b[48 * i..48 * (i + 1)]);
                let p = G1Affine::from_bytes(&c).expect("own encoding");
                let vs: Vec<String> = dusk_bls12_381::sym::vars_of(p.sym_lift())
                    .into_iter().filter(|v| v.starts_with("blind")).collect();
                deps.insert(name.to_string(), json!(vs));
            }
            for (i, name) in PROOF_EVALS.iter().enumerate() {
                let mut c = [0u8; 32];
                c.copy_from_slice(&b[528 + 32 * i..528 + 32 * (i + 1)]);
                let s = BlsScalar::from_bytes(&c).expect("own encoding");
                let vs: Vec<String> = dusk_bls12_381::sym::vars_of(dusk_bls12_381::sym::id_of(&s))
                    .into_iter().filter(|v| v.starts_with("blind")).collect();
                deps.insert(name.to_string(), json!(vs));
            }
            ctx.out_json("deps", Value::Object(deps));
            ctx.out_json("nodes_in_arena", json!(dusk_bls12_381::sym::node_count()));
        } else if let Err(e) = &r {
            ctx.out_json("error", json!(format!("{:?}", e)));
        }
        ctx.deps_only = true;
        return;
    }
    match r {
        Ok((proof, pis)) => {
            let b = proof.to_bytes();
            let mut comms = serde_json::Map::new();
            for (i, name) in PROOF_COMMS.iter().enumerate() {
                let mut c = [0u8; 48];
                c.copy_from_slice(&b[48 * i..48 * (i + 1)]);
                let p = G1Affine::from_bytes(&c).expect("own encoding");
                comms.insert(name.to_string(), g1_dlog(ctx, &p));
            }
            let mut evals = serde_json::Map::new();
            for (i, name) in PROOF_EVALS.iter().enumerate() {
                let mut c = [0u8; 32];
                c.copy_from_slice(&b[528 + 32 * i..528 + 32 * (i + 1)]);
                let s = BlsScalar::from_bytes(&c).expect("own encoding");
                evals.insert(name.to_string(), ctx.scalar_json(&s));
            }
            ctx.out_json("comms", Value::Object(comms));
            ctx.out_json("evals", Value::Object(evals));
            ctx.out_json("pis", Value::Array(pis.iter().map(|p| ctx.scalar_json(p)).collect()));
            // the proof is also checked by the real verifier (same scripted oracle)
            let v = verifier.verify(&proof, &pis);
            ctx.out_json("verified", json!(format!("{:?}", v)));
        }
        Err(e) => ctx.out_json("error", json!(format!("{:?}", e))),
    }
    #[cfg(feature = "sym")]
    {
        let (_taken, path) = dusk_bls12_381::sym::end_run();
        ctx.out_json("path", crate::path_json(&path));
    }
    ctx.meta.insert(
        "functions".into(),
        json!(["Compiler::compile_with_circuit", "Compiler::preprocess", "Prover::new", "Prover::prove",
               "Prover::prove_inner", "Prover::sample_wire_blinders", "Prover::blind_wire_polynomials",
               "Prover::blind_poly", "Prover::blind_poly_with_blinders", "Permutation::compute_permutation_vec",
               "quotient_poly::compute", "linearization_poly::compute", "CommitKey::commit",
               "CommitKey::compute_aggregate_witness", "Verifier::verify"]),
    );
}

/// `decode_probe <flag>`: a valid serialized prover whose FIRST commit-key point gets
/// the given infinity-flag byte; reports what the checked decoder does.
pub fn run_decode_probe(ctx: &mut Ctx, args: &[String]) {
    let flag: u8 = args[0].parse().unwrap();
    let circuit = TinyCircuit { kind: 1, a: BlsScalar::from(3u64), b: BlsScalar::from(5u64) };
    let mut rng = crate::gadgets::ReplayRng(ctx.seed ^ 0xdec0de);
    let pp = PublicParameters::setup(32, &mut rng).expect("setup");
    let (prover, _v) = Compiler::compile_with_circuit(&pp, b"probe", &circuit).expect("compile");
    let mut bytes = prover.to_bytes();
    let rd = |b: &[u8], i: usize| u64::from_be_bytes(<[u8; 8]>::try_from(&b[8 * i..8 * i + 8]).unwrap()) as usize;
    let (label_len, pk_len) = (rd(&bytes, 0), rd(&bytes, 1));
    let off = 48 + label_len + pk_len + 8 + 96;
    let old = bytes[off];
    bytes[off] = flag;
    let r = std::panic::catch_unwind(std::panic::AssertUnwindSafe(|| Prover::try_from_bytes(&bytes).map(|_| ())));
    ctx.out_json("original_flag", json!(old));
    ctx.out_json("flag", json!(flag));
    ctx.out_json("outcome", match r {
        Ok(Ok(())) => json!("Ok"),
        Ok(Err(e)) => json!(format!("Err({:?})", e)),
        Err(_) => json!("PANIC"),
    });
}

/// `decode <which> <hex>`: run one checked decoder of the real build on concrete bytes
/// (replay of bounded-model-checking counterexamples); reports Ok / Err / PANIC.
pub fn run_decode(ctx: &mut Ctx, args: &[String]) {
    use dusk_plonk::verif as hk;
    let which = args[0].clone();
    let h = args.get(1).cloned().unwrap_or_default();
    let bytes: Vec<u8> = (0..h.len() / 2).map(|i| u8::from_str_radix(&h[2 * i..2 * i + 2], 16).unwrap()).collect();
    let r = std::panic::catch_unwind(std::panic::AssertUnwindSafe(|| -> Result<String, String> {
        let e = |x: Error| format!("{:?}", x);
        match which.as_str() {
            "commit_key_from_raw_var_bytes_one_point" => hk::commit_key_from_raw_var_bytes(&bytes).map(|_| "ok".into()).map_err(e),
            "commit_key_from_slice_two_points" => hk::commit_key_from_slice(&bytes).map(|_| "ok".into()).map_err(e),
            "opening_key_from_slice" => hk::opening_key_from_slice(&bytes).map(|_| "ok".into()).map_err(e),
            "proof_from_bytes" => {
                let mut b = [0u8; 1008];
                b.copy_from_slice(&bytes[..1008]);
                // "ok" when the accepted bytes re-encode to themselves, "noncanonical" otherwise
                Proof::from_bytes(&b)
                    .map(|p| if p.to_bytes() == b { "ok".into() } else { "noncanonical".into() })
                    .map_err(|x| format!("{:?}", x))
            }
            "polynomial_from_slice" => hk::polynomial_from_slice(&bytes).map(|n| format!("{n}")).map_err(e),
            "evaluations_from_slice" => hk::evaluations_from_slice(&bytes).map(|n| format!("{n}")).map_err(e),
            "prover_try_from_bytes_header" => Prover::try_from_bytes(&bytes).map(|_| "ok".into()).map_err(e),
            "verifier_try_from_bytes_header" => Verifier::try_from_bytes(&bytes).map(|_| "ok".into()).map_err(e),
            _ => Err("unknown decoder".into()),
        }
    }));
    ctx.out_json("outcome", match r {
        Ok(Ok(s)) => json!(format!("Ok({s})")),
        Ok(Err(e)) => json!(format!("Err({e})")),
        Err(_) => json!("PANIC"),
    });
}

/// `decode_alloc <hex> <max_constraints>`: the compressed-circuit decoder of the real build on
/// concrete bytes; reports the outcome and the largest single allocation request made during
/// the call (the counting allocator aborts with `ALLOC_REQUEST <bytes>` on stderr above 1 GiB).
pub fn run_decode_alloc(ctx: &mut Ctx, args: &[String]) {
    use std::sync::atomic::Ordering;
    let h = args[0].clone();
    let m: usize = args[1].parse().unwrap();
    let bytes: Vec<u8> = (0..h.len() / 2).map(|i| u8::from_str_radix(&h[2 * i..2 * i + 2], 16).unwrap()).collect();
    crate::counting_alloc::PEAK_REQUEST.store(0, Ordering::Relaxed);
    let r = std::panic::catch_unwind(std::panic::AssertUnwindSafe(|| {
        Composer::verif_decompress(&bytes, m).map(|c| c.constraints())
    }));
    let peak = crate::counting_alloc::PEAK_REQUEST.load(Ordering::Relaxed);
    ctx.out_json("peak_request_bytes", json!(peak));
    ctx.out_json("outcome", match r {
        Ok(Ok(n)) => json!(format!("Ok({n})")),
        Ok(Err(e)) => json!(format!("Err({:?})", e)),
        Err(_) => json!("PANIC"),
    });
}

// ---------------------------------------------------------------------------
// Prover with symbolic WITNESS values (C05): satisfying family, one violated row,
// one broken copy constraint
// ---------------------------------------------------------------------------

#[derive(Clone)]
pub struct WitnessCircuit {
    pub scenario: usize,
    pub a: BlsScalar,
    pub b: BlsScalar,
    pub e: BlsScalar,
}

impl Default for WitnessCircuit {
    fn default() -> Self {
        WitnessCircuit { scenario: 0, a: BlsScalar::from(3u64), b: BlsScalar::from(5u64), e: BlsScalar::zero() }
    }
}

impl Circuit for WitnessCircuit {
    fn circuit(&self, c: &mut Composer) -> Result<(), Error> {
        // compiled shape (scenario 0): m = a*b ; public input = m ; s = a + b ; t = s*a
        let a = c.append_witness(self.a);
        let b = c.append_witness(self.b);
        let m = c.gate_mul(Constraint::new().mult(1).a(a).b(b));
        c.assert_equal_constant(m, BlsScalar::zero(), Some(self.a * self.b));
        let s = c.gate_add(Constraint::new().left(1).right(1).a(a).b(b));
        // scenario 2: the second use of `a` is wired to a DIFFERENT witness (value e):
        // every row can still hold, the compiled copy constraint a == a' is broken
        let a2 = if self.scenario == 2 { c.append_witness(self.e) } else { a };
        let t = c.gate_mul(Constraint::new().mult(1).a(s).b(a2));
        if self.scenario == 2 {
            // keep the witness table aligned with the compiled circuit: no extra rows
            let _ = t;
        }
        if self.scenario == 1 {
            // one row violated: the product wire gets an unrelated value
            c.verif_set_witness(m, self.e);
        }
        if self.scenario == 3 {
            // a public input on a row whose arithmetic selector is zero (custom gate with no
            // selector set): the row identity is PI = 0, violated by every e != 0
            c.append_custom_gate(Constraint::new().public(self.e));
        }
        Ok(())
    }
}

/// `prove_w <scenario>`: compile the concrete default instance, prove a SYMBOLIC instance
/// (witnesses a, b, and e free), symbolic SRS secret, concrete blinders, scripted challenges.
pub fn run_prove_w(ctx: &mut Ctx, args: &[String]) {
    use crate::kernels::{g1_dlog, ScriptedRng};
    let scenario: usize = args[0].parse().unwrap();
    #[cfg(feature = "sym")]
    {
        dusk_bls12_381::sym::set_transcript_symbolic(true);
        let script: Vec<(String, BlsScalar)> =
            PROVER_CHALLENGES.iter().map(|l| (l.to_string(), seeded(ctx.seed, l))).collect();
        dusk_bls12_381::sym::set_challenge_script(script);
    }
    let mut srs_rng = ScriptedRng::with_prefix(ctx, "srs", 8);
    let pp = PublicParameters::setup(32, &mut srs_rng).expect("setup");
    let (prover, verifier) =
        Compiler::compile_with_circuit(&pp, b"verif-prove-w",
                                       &WitnessCircuit { scenario: if scenario == 3 { 3 } else { 0 }, ..WitnessCircuit::default() })
            .expect("compile");
    let inst = WitnessCircuit { scenario, a: ctx.var("wa"), b: ctx.var("wb"), e: ctx.var("we") };
    let all = scenario != 0;
    crate::kernels::with_paths(ctx, "prove", all, move |ctx| {
        let mut rng = crate::gadgets::ReplayRng(ctx.seed ^ 0xb11d);
        match prover.prove(&mut rng, &inst) {
            Ok((proof, pis)) => {
                let v = verifier.verify(&proof, &pis);
                json!({"proved": true, "verified": format!("{:?}", v),
                       "pis": pis.iter().map(|p| ctx.scalar_json(p)).collect::<Vec<_>>()})
            }
            Err(e) => json!({"proved": false, "error": format!("{:?}", e)}),
        }
    });
    ctx.meta.insert(
        "functions".into(),
        json!(["Prover::prove", "Composer::prove", "Permutation::compute_permutation_vec", "quotient_poly::compute",
               "quotient_poly::compute_circuit_satisfiability_equation", "quotient_poly::compute_permutation_checks",
               "linearization_poly::compute", "Verifier::verify"]),
    );
}

// ---------------------------------------------------------------------------
// Serialization round trips on symbolic contents (C16)
// ---------------------------------------------------------------------------

/// circuit whose selector constants are free variables (distinct symbols in every selector
/// column) -- the compiled keys then carry pairwise distinct symbolic polynomials.  `adds`
/// extra addition rows set the size, `pis` of them carry a public input, `custom` adds a
/// range and a logic component (q_range, q_logic columns non-zero).
#[derive(Clone, Default)]
pub struct SymSelectorCircuit {
    pub k: Vec<BlsScalar>,
    pub adds: usize,
    pub pis: usize,
    pub custom: bool,
}

impl Circuit for SymSelectorCircuit {
    fn circuit(&self, c: &mut Composer) -> Result<(), Error> {
        let k = |i: usize| self.k.get(i % self.k.len().max(1)).copied().unwrap_or(BlsScalar::from(2 + i as u64));
        let a = c.append_witness(BlsScalar::from(3u64));
        let b = c.append_witness(BlsScalar::from(5u64));
        let d = c.append_witness(BlsScalar::from(7u64));
        // general gates with free selector values; outputs solved by the composer
        let o1 = c.append_evaluated_output(
            Constraint::new().mult(k(0)).left(k(1)).right(k(2)).fourth(k(3)).constant(k(4)).output(k(5)).a(a).b(b).d(d),
        );
        let mut acc = o1.unwrap_or(a);
        let _ = c.append_constant(k(10));
        for j in 0..self.adds {
            let mut g = Constraint::new().left(k(6 + j)).right(k(7 + j)).constant(k(8 + j)).a(acc).b(d);
            if j < self.pis {
                g = g.public(k(9 + j));
            }
            acc = c.gate_add(g);
        }
        if self.custom {
            // which custom gate families are present: all (default), or the subset named by
            // VERIF_CUSTOM (letters r = range, l = logic, f = fixed-base, v = variable-base addition)
            let fam = std::env::var("VERIF_CUSTOM").unwrap_or_else(|_| "rl".to_string());
            if fam.contains('r') {
                c.component_range_bits::<4>(a);
            }
            if fam.contains('l') {
                let x = c.append_logic_and::<1>(a, b);
                c.assert_equal_constant(x, BlsScalar::from(1u64), None);
            }
            if fam.contains('f') || fam.contains('v') {
                let p = c.component_mul_generator(b, dusk_jubjub::GENERATOR_EXTENDED)?;
                if fam.contains('v') {
                    let q = c.component_add_point(p, p);
                    c.assert_equal_point(q.into(), q.into());
                }
            }
        }
        Ok(())
    }
}

/// 1008 bytes made of 11 arbitrary (symbolic) group elements and 15 arbitrary scalars
fn arbitrary_proof_bytes(ctx: &mut Ctx, prefix: &str) -> Vec<u8> {
    let mut b = vec![];
    for i in 0..11 {
        b.extend_from_slice(&g1(ctx, &format!("{prefix}c{i}")).to_bytes());
    }
    for i in 0..15 {
        b.extend_from_slice(&ctx.var(&format!("{prefix}e{i}")).to_bytes());
    }
    b
}

fn verify_logged(v: &Verifier, proof: &Proof, pis: &[BlsScalar]) -> (String, Value) {
    #[cfg(feature = "sym")]
    dusk_bls12_381::sym::begin_run(&[], false);
    let r = std::panic::catch_unwind(std::panic::AssertUnwindSafe(|| v.verify(proof, pis)));
    let r = match r {
        Ok(x) => format!("{:?}", x),
        Err(_) => "panic".to_string(),
    };
    #[cfg(feature = "sym")]
    {
        let (_t, path) = dusk_bls12_381::sym::end_run();
        return (r, crate::path_json(&path));
    }
    #[cfg(not(feature = "sym"))]
    (r, Value::Null)
}

/// `roundtrip <adds> <pis> <custom>`: encode -> decode -> encode for Prover, Verifier, Proof and
/// PublicParameters whose contents are symbolic (SRS secret/bases, selector constants,
/// blinders), and behaviour of the decoded objects (same proof from the same randomness, same
/// acceptance condition on an honest and on an arbitrary proof).
pub fn run_roundtrip(ctx: &mut Ctx, args: &[String]) {
    use crate::kernels::ScriptedRng;
    let adds: usize = args.get(0).map(|x| x.parse().unwrap()).unwrap_or(1);
    let pis: usize = args.get(1).map(|x| x.parse().unwrap()).unwrap_or(1);
    let custom = args.get(2).map(|x| x == "1").unwrap_or(false);
    #[cfg(feature = "sym")]
    {
        dusk_bls12_381::sym::set_transcript_symbolic(true);
        dusk_bls12_381::sym::begin_run(&[], false);
    }
    let circuit = SymSelectorCircuit { k: (0..11).map(|i| ctx.var(&format!("sel{i}"))).collect(), adds, pis, custom };
    let n = {
        let mut probe = Composer::initialized();
        circuit.circuit(&mut probe).unwrap();
        probe.constraints()
    };
    ctx.out_json("constraints", json!(n));
    let degree = (n + 6).next_power_of_two() + 6;
    let mut srs_rng = ScriptedRng::with_prefix(ctx, "srs", 8);
    let pp = PublicParameters::setup(degree, &mut srs_rng).expect("setup");
    let mut flags: Vec<(&str, Value)> = vec![];
    // ---- public parameters
    let raw = pp.to_raw_var_bytes();
    let pp_raw = unsafe { PublicParameters::from_slice_unchecked(&raw) };
    flags.push(("pp_raw_roundtrip_identical", json!(pp_raw.to_raw_var_bytes() == raw && pp_raw.to_var_bytes() == pp.to_var_bytes())));
    let var = pp.to_var_bytes();
    match PublicParameters::from_slice(&var) {
        Ok(p2) => flags.push(("pp_checked_roundtrip_identical", json!(p2.to_var_bytes() == var && p2.to_raw_var_bytes() == raw))),
        Err(e) => flags.push(("pp_checked_roundtrip_identical", json!(format!("Err({:?})", e)))),
    }
    // ---- proof canonicity on arbitrary accepted contents: layout of the 1008 bytes
    let arb = arbitrary_proof_bytes(ctx, "arb_");
    let mut arb_arr = [0u8; Proof::SIZE];
    arb_arr.copy_from_slice(&arb);
    let arb_proof = Proof::from_bytes(&arb_arr);
    flags.push(("arbitrary_proof_reencodes_to_itself", json!(arb_proof.as_ref().map(|p| p.to_bytes()[..] == arb[..]).unwrap_or(false))));
    // ---- prover / verifier
    let (prover, verifier) = Compiler::compile_with_circuit(&pp, b"verif-roundtrip", &circuit).expect("compile");
    let pb = prover.to_bytes();
    let vb = verifier.to_bytes();
    ctx.out_json("prover_bytes", json!(pb.len()));
    ctx.out_json("verifier_bytes", json!(vb.len()));
    let p2 = Prover::try_from_bytes(&pb);
    let v2 = Verifier::try_from_bytes(&vb);
    match (&p2, &v2) {
        (Ok(p2), Ok(v2)) => {
            flags.push(("prover_roundtrip_identical", json!(p2.to_bytes() == pb)));
            flags.push(("verifier_roundtrip_identical", json!(v2.to_bytes() == vb)));
            // behaviour: same proof from the same randomness
            let mut r1 = ScriptedRng::with_prefix(ctx, "blind", 20);
            let mut r2 = ScriptedRng::with_prefix(ctx, "blind", 20);
            let a = prover.prove(&mut r1, &circuit);
            let b = p2.prove(&mut r2, &circuit);
            match (a, b) {
                (Ok((pa, ia)), Ok((pbf, ib))) => {
                    let ea = pa.to_bytes();
                    flags.push(("decoded_prover_same_proof", json!(ea == pbf.to_bytes() && ia == ib && r1.log == r2.log)));
                    ctx.out_json("public_inputs", json!(ia.len()));
                    let back = Proof::from_bytes(&ea);
                    flags.push(("proof_roundtrip_identical", json!(back.map(|p| p.to_bytes() == ea).unwrap_or(false))));
                    #[cfg(feature = "sym")]
                    let _ = dusk_bls12_381::sym::end_run();
                    // same acceptance condition: the two verifiers make the same sequence of
                    // comparisons on the same terms (honest proof, arbitrary proof, arbitrary
                    // proof with arbitrary public inputs)
                    let (va, pa1) = verify_logged(&verifier, &pa, &ia);
                    let (vb_, pa2) = verify_logged(v2, &pa, &ia);
                    flags.push(("honest_proof_same_verdict", json!(va == vb_ && va == "Ok(())")));
                    flags.push(("honest_proof_same_condition", json!(pa1 == pa2)));
                    if let Ok(ap) = &arb_proof {
                        let api: Vec<BlsScalar> = (0..ia.len()).map(|i| ctx.var(&format!("arb_pi{i}"))).collect();
                        let (x1, q1) = verify_logged(&verifier, ap, &api);
                        let (x2, q2) = verify_logged(v2, ap, &api);
                        flags.push(("arbitrary_proof_same_verdict", json!(x1 == x2)));
                        flags.push(("arbitrary_proof_same_condition", json!(q1 == q2)));
                        ctx.out_json("arbitrary_proof_verdict", json!(x1));
                        ctx.out_json("arbitrary_proof_comparisons", json!(q1.as_array().map(|a| a.len()).unwrap_or(0)));
                    }
                }
                (x, y) => flags.push(("prove_error", json!(format!("{:?} / {:?}", x.err(), y.err())))),
            }
        }
        _ => flags.push(("decode_error", json!(format!("{:?} / {:?}", p2.as_ref().err(), v2.as_ref().err())))),
    }
    #[cfg(feature = "sym")]
    ctx.out_json("nodes_in_arena", json!(dusk_bls12_381::sym::node_count()));
    ctx.out_json("flags", Value::Object(flags.into_iter().map(|(k, v)| (k.to_string(), v)).collect()));
    ctx.deps_only = true;
    ctx.meta.insert(
        "functions".into(),
        json!(["PublicParameters::{to_raw_var_bytes, from_slice_unchecked, to_var_bytes, from_slice}",
               "Prover::{to_bytes, try_from_bytes, new}", "ProverKey::{to_var_bytes, from_slice}",
               "CommitKey::{to_raw_var_bytes, from_raw_var_bytes, to_var_bytes, from_slice}",
               "Verifier::{to_bytes, try_from_bytes, new}", "VerifierKey / OpeningKey Serializable",
               "Proof::{to_bytes, from_bytes}", "Polynomial / Evaluations to_var_bytes / from_slice",
               "Prover::prove", "Verifier::verify"]),
    );
}

// ---------------------------------------------------------------------------
// Compressed route vs direct route (C15)
// ---------------------------------------------------------------------------

/// circuit whose selector values come from a list (symbolic selector constants and/or every
/// entry of the built-in scalar dictionary), one general gate per 6 values
#[derive(Clone, Default)]
pub struct ListCircuit {
    pub sel: Vec<BlsScalar>,
    pub pis: usize,
    pub custom: bool,
}

impl Circuit for ListCircuit {
    fn circuit(&self, c: &mut Composer) -> Result<(), Error> {
        let a = c.append_witness(BlsScalar::from(3u64));
        let b = c.append_witness(BlsScalar::from(5u64));
        let d = c.append_witness(BlsScalar::from(7u64));
        let mut acc = a;
        for (j, ch) in self.sel.chunks(6).enumerate() {
            let k = |i: usize| ch.get(i).copied().unwrap_or(BlsScalar::one());
            let mut g = Constraint::new().mult(k(0)).left(k(1)).right(k(2)).fourth(k(3)).constant(k(4)).a(acc).b(b).d(d);
            if j < self.pis {
                g = g.public(k(5));
            }
            if j % 2 == 1 && j >= self.pis {
                // every second row: a free OUTPUT selector as well (all six selector columns of one
                // row carry values seen nowhere else); the composer solves for the output wire
                acc = c.append_evaluated_output(g.output(k(5))).unwrap_or(acc);
            } else {
                // output selector -1
                acc = c.gate_add(g);
            }
        }
        if self.custom {
            c.component_range_bits::<6>(a);
            let p = c.component_mul_generator(b, dusk_jubjub::GENERATOR_EXTENDED)?;
            let q = c.component_add_point(p, p);
            c.assert_equal_point(q.into(), q.into());
        }
        Ok(())
    }
}

/// `compress_routes <nsym> <pis> <custom> <table 0|1> <hades 0|1>`
pub fn run_compress_routes(ctx: &mut Ctx, args: &[String]) {
    use crate::kernels::ScriptedRng;
    let nsym: usize = args[0].parse().unwrap();
    let pis: usize = args[1].parse().unwrap();
    let custom = args[2] == "1";
    let table = args[3] == "1";
    let hades = args[4] == "1";
    #[cfg(feature = "sym")]
    {
        dusk_bls12_381::sym::set_transcript_symbolic(true);
        dusk_bls12_381::sym::begin_run(&[], false);
    }
    let mut sel: Vec<BlsScalar> = (0..nsym).map(|i| ctx.var(&format!("sel{i}"))).collect();
    let dict = Composer::verif_compress_scalar_table(hades);
    // the dictionary itself: indices 0..len, each exactly once
    let mut idx: Vec<usize> = dict.iter().map(|(_, i)| *i).collect();
    idx.sort();
    let injective = idx.iter().enumerate().all(|(k, i)| k == *i);
    if table {
        let mut d = dict.clone();
        d.sort_by_key(|(_, i)| *i);
        sel.extend(d.iter().map(|(s, _)| *s));
        // also values adjacent to dictionary entries (must NOT be confused with them)
        sel.extend(d.iter().take(16).map(|(s, _)| *s + BlsScalar::one()));
    }
    let circuit = ListCircuit { sel, pis, custom };
    let mut direct = Composer::initialized();
    circuit.circuit(&mut direct).expect("circuit");
    let n = direct.constraints();
    let mut srs_rng = ScriptedRng::with_prefix(ctx, "srs", 8);
    let pp = PublicParameters::setup((n + 6).next_power_of_two() + 6, &mut srs_rng).expect("setup");
    let compressed = direct.clone().verif_compress(hades);
    let a = Compiler::compile_with_circuit(&pp, b"verif-routes", &circuit);
    let b = Compiler::compile_with_compressed(&pp, b"verif-routes", &compressed);
    let mut flags = serde_json::Map::new();
    flags.insert("dictionary_indices_are_a_permutation".into(), json!(injective));
    match (a, b) {
        (Ok((p1, v1)), Ok((p2, v2))) => {
            flags.insert("prover_identical".into(), json!(p1.to_bytes() == p2.to_bytes()));
            flags.insert("verifier_identical".into(), json!(v1.to_bytes() == v2.to_bytes()));
        }
        (x, y) => {
            flags.insert("both_routes_succeed".into(), json!(format!("{:?} / {:?}", x.err(), y.err())));
        }
    }
    // decompressed composer == original composer, gate by gate
    match Composer::verif_decompress(&compressed, n) {
        Ok(back) => {
            let (g1_, w1, p1) = direct.verif_snapshot();
            let (g2_, w2, p2) = back.verif_snapshot();
            // wires are compared up to a renaming (decompression renumbers witnesses in order of
            // first appearance): canonical labels = order of first use
            let canon = |g: &Vec<([BlsScalar; 11], [usize; 4])>| {
                let mut m = std::collections::HashMap::new();
                g.iter().map(|(s, w)| (*s, w.map(|x| { let k = m.len(); *m.entry(x).or_insert(k) }))).collect::<Vec<_>>()
            };
            let (g1_, g2_) = (canon(&g1_), canon(&g2_));
            flags.insert("decompressed_gates_identical".into(), json!(g1_ == g2_));
            if g1_ != g2_ {
                let k = g1_.iter().zip(g2_.iter()).position(|(a, b)| a != b);
                ctx.out_json("first_gate_difference", json!({"row": k, "lens": [g1_.len(), g2_.len()],
                    "direct": k.map(|k| format!("{:?}", (g1_[k].0.iter().map(crate::hex).collect::<Vec<_>>(), g1_[k].1))),
                    "decompressed": k.map(|k| format!("{:?}", (g2_[k].0.iter().map(crate::hex).collect::<Vec<_>>(), g2_[k].1)))}));
            }
            flags.insert("decompressed_public_input_rows_identical".into(),
                         json!(p1.iter().map(|x| x.0).collect::<Vec<_>>() == p2.iter().map(|x| x.0).collect::<Vec<_>>()));
            flags.insert("decompressed_witness_count_identical".into(), json!(w1.len() == w2.len()));
        }
        Err(e) => {
            flags.insert("decompress_at_exact_capacity".into(), json!(format!("Err({:?})", e)));
        }
    }
    ctx.out_json("constraints", json!(n));
    ctx.out_json("dictionary", json!(dict.len()));
    ctx.out_json("compressed_bytes", json!(compressed.len()));
    #[cfg(feature = "sym")]
    {
        let _ = dusk_bls12_381::sym::end_run();
        ctx.out_json("nodes_in_arena", json!(dusk_bls12_381::sym::node_count()));
    }
    ctx.out_json("flags", Value::Object(flags));
    ctx.deps_only = true;
    ctx.meta.insert("functions".into(), json!(["CompressedCircuit::from_composer", "scalar_map", "CompressedCircuit::from_bytes",
        "CompressedCircuit::unpack_bounded", "CompressedCircuit::validate_indices", "Composer::from_bytes",
        "Compiler::compile_with_compressed", "Compiler::compile_with_circuit", "Prover::to_bytes", "Verifier::to_bytes"]));
}

// ---------------------------------------------------------------------------
// Proof decoder canonicity (C16): arbitrary, possibly non-canonical scalar encodings
// ---------------------------------------------------------------------------

/// 32 bytes for the integer v + kappa*r (kappa = 0: canonical).  Symbolic build: a tagged
/// string on which the canonicity test of `BlsScalar::from_bytes` is the decision kappa == 0.
/// Real build: the little-endian integer, kappa in {0, 1} taken from the environment.
pub fn noncanonical_scalar_bytes(ctx: &mut Ctx, name: &str) -> [u8; 32] {
    let v = ctx.var(name);
    #[cfg(feature = "sym")]
    if !ctx.concrete {
        let k = ctx.var(&format!("{name}_kappa"));
        return dusk_bls12_381::sym::noncanonical_bytes(&v, &k);
    }
    let kappa_set = ctx
        .env_override
        .as_ref()
        .and_then(|e| e.get(&format!("{name}_kappa")))
        .and_then(|v| v.as_str())
        .map(|h| h.trim_start_matches('0') != "")
        .unwrap_or(false);
    let mut b = v.to_bytes();
    if kappa_set {
        // add r (little-endian, 256-bit; v + r < 2^256 because v < r < 2^255)
        const R_LE: [u64; 4] = [0xffff_ffff_0000_0001, 0x53bd_a402_fffe_5bfe, 0x3339_d808_09a1_d805, 0x73ed_a753_299d_7d48];
        let mut carry = 0u128;
        for i in 0..4 {
            let x = u64::from_le_bytes(<[u8; 8]>::try_from(&b[8 * i..8 * i + 8]).unwrap()) as u128 + R_LE[i] as u128 + carry;
            b[8 * i..8 * i + 8].copy_from_slice(&(x as u64).to_le_bytes());
            carry = x >> 64;
        }
    }
    b
}

/// `proof_canon`: every path of `Proof::from_bytes` on 11 arbitrary group elements and 15
/// arbitrary 256-bit integers; on accepting paths the re-encoding is compared slot by slot.
pub fn run_proof_canon(ctx: &mut Ctx, _args: &[String]) {
    let mut bytes = vec![];
    for i in 0..11 {
        bytes.extend_from_slice(&g1(ctx, &format!("pc{i}")).to_bytes());
    }
    for i in 0..15 {
        bytes.extend_from_slice(&noncanonical_scalar_bytes(ctx, &format!("pe{i}")));
    }
    let mut arr = [0u8; Proof::SIZE];
    arr.copy_from_slice(&bytes);
    #[cfg(feature = "sym")]
    let kappas: Vec<Value> = (0..15)
        .map(|i| {
            let k = ctx.var(&format!("pe{i}_kappa"));
            ctx.scalar_json(&k)
        })
        .collect();
    #[cfg(feature = "sym")]
    ctx.out_json("kappas", Value::Array(kappas));
    crate::kernels::with_paths(ctx, "decode", true, |_ctx| match Proof::from_bytes(&arr) {
        Ok(p) => {
            let out = p.to_bytes();
            // slot-wise comparison; a scalar slot matches when it carries the same value node
            // (the kappa half of the tag is what the path condition has to force to zero)
            let mut same = out[..528] == arr[..528];
            #[allow(unused_mut)]
            let mut identical = out[..] == arr[..];
            for i in 0..15 {
                let (a, b) = (&out[528 + 32 * i..560 + 32 * i], &arr[528 + 32 * i..560 + 32 * i]);
                #[cfg(feature = "sym")]
                {
                    let pa = dusk_bls12_381::sym::noncanonical_parts(a);
                    let pb = dusk_bls12_381::sym::noncanonical_parts(b);
                    same &= match (pa, pb) {
                        (Some(x), Some(y)) => x.0 == y.0,
                        _ => a == b,
                    };
                }
                #[cfg(not(feature = "sym"))]
                {
                    same &= a == b;
                }
            }
            json!({"accepted": true, "reencoded_values_match": same, "reencoded_bytes_identical": identical})
        }
        Err(e) => json!({"accepted": false, "error": format!("{:?}", e)}),
    });
    ctx.meta.insert("functions".into(), json!(["Proof::from_bytes", "ProofEvaluations::from_bytes", "Proof::to_bytes",
        "Commitment / G1Affine (de)serialization (group model)", "BlsScalar::from_bytes (canonicity as a decision)"]));
}

// ---------------------------------------------------------------------------
// Checked decoders admit only valid group elements (C17)
// ---------------------------------------------------------------------------

/// One group element that may be INVALID: `a*G + t*T + c*O` (dlog a, torsion component t,
/// off-curve component c).  Symbolic build: a dlog-model node with the formal variables TAU/OMEGA
/// on which `is_torsion_free` / `is_on_curve` are decisions.  Real build: a concrete element built
/// from the environment (`<name>_t` in {0, 1, r-1}: none, +Q, -Q for a fixed point Q on the curve
/// outside the subgroup; `<name>_c` non-zero: an off-curve raw point / an undecodable x).
pub struct Elem {
    pub name: String,
    pub grp: u8,
    pub nodes: Value,
    pub bytes: Vec<u8>,
    /// real build: the element is invalid by construction
    pub invalid: bool,
}

fn env_flag(ctx: &Ctx, key: &str) -> u8 {
    // 0: zero, 1: the value one, 2: any other non-zero value (treated as -1)
    let v = ctx.env_override.as_ref().and_then(|e| e.get(key)).and_then(|v| v.as_str()).map(|s| s.trim_start_matches('0').to_string());
    match v.as_deref() {
        None | Some("") => 0,
        Some("1") => 1,
        _ => 2,
    }
}

fn g1_outside_subgroup() -> G1Affine {
    // smallest x whose compressed encoding decodes to a curve point outside the subgroup
    for x in 1u8..=255 {
        let mut b = [0u8; 48];
        b[47] = x;
        b[0] |= 0x80;
        if let Some(p) = Option::<G1Affine>::from(G1Affine::from_compressed_unchecked(&b)) {
            if !bool::from(p.is_torsion_free()) {
                return p;
            }
        }
    }
    panic!("no small point outside the subgroup")
}

fn g2_outside_subgroup() -> G2Affine {
    for x in 1u8..=255 {
        let mut b = [0u8; 96];
        b[95] = x;
        b[0] |= 0x80;
        if let Some(p) = Option::<G2Affine>::from(G2Affine::from_compressed_unchecked(&b)) {
            if !bool::from(p.is_torsion_free()) {
                return p;
            }
        }
    }
    panic!("no small point outside the subgroup")
}

pub fn elem(ctx: &mut Ctx, name: &str, grp: u8, raw: bool) -> Elem {
    let a = ctx.var(&format!("{name}_a"));
    #[cfg(feature = "sym")]
    if !ctx.concrete {
        let t = ctx.var(&format!("{name}_t"));
        let c = ctx.var(&format!("{name}_c"));
        let id = dusk_bls12_381::sym::invalid_capable_element(grp, &a, &t, &c);
        let bytes = if grp == 1 {
            let p = G1Affine::sym_new(id);
            if raw { p.to_raw_bytes().to_vec() } else { p.to_bytes().to_vec() }
        } else {
            G2Affine::sym_new(id).to_bytes().to_vec()
        };
        let nodes = json!({"a": ctx.scalar_json(&a), "t": ctx.scalar_json(&t), "c": ctx.scalar_json(&c)});
        return Elem { name: name.into(), grp, nodes, bytes, invalid: false };
    }
    let t = env_flag(ctx, &format!("{name}_t"));
    let c = env_flag(ctx, &format!("{name}_c"));
    let zero_a = env_flag(ctx, &format!("{name}_zero")) != 0;
    let a = if zero_a { BlsScalar::zero() } else { a };
    let mut invalid = t != 0 || c != 0;
    let bytes = if grp == 1 {
        let mut p = G1Affine::generator() * a;
        let q = g1_outside_subgroup();
        if t == 1 {
            p += q;
        } else if t == 2 {
            p -= q;
        }
        let p = G1Affine::from(p);
        if raw {
            let mut b = p.to_raw_bytes().to_vec();
            if c != 0 {
                // off the curve: y := y + 1 (raw limbs are Montgomery words; flipping the lowest
                // bit of the first y word changes y)
                b[48] ^= 1;
                let q = unsafe { G1Affine::from_slice_unchecked(&b) };
                invalid = !bool::from(q.is_on_curve()) || t != 0;
            }
            b
        } else {
            let mut b = p.to_bytes().to_vec();
            if c != 0 {
                // an x without a curve point: search upwards from the encoded x
                loop {
                    b[47] = b[47].wrapping_add(1);
                    let mut arr = [0u8; 48];
                    arr.copy_from_slice(&b);
                    if Option::<G1Affine>::from(G1Affine::from_compressed_unchecked(&arr)).is_none() {
                        break;
                    }
                }
            }
            b
        }
    } else {
        let mut p = G2Affine::generator() * a;
        let q = g2_outside_subgroup();
        if t == 1 {
            p += q;
        } else if t == 2 {
            p -= q;
        }
        let mut b = G2Affine::from(p).to_bytes().to_vec();
        if c != 0 {
            loop {
                b[95] = b[95].wrapping_add(1);
                let mut arr = [0u8; 96];
                arr.copy_from_slice(&b);
                if Option::<G2Affine>::from(G2Affine::from_compressed_unchecked(&arr)).is_none() {
                    break;
                }
            }
        }
        b
    };
    Elem { name: name.into(), grp, nodes: Value::Null, bytes, invalid: invalid || zero_a && false }
}

/// `decode_validity <decoder> <n>`: all paths of a checked decoder on group elements that may be
/// off the curve or outside the prime-order subgroup (and, for opening keys, the identity).
pub fn run_decode_validity(ctx: &mut Ctx, args: &[String]) {
    use dusk_plonk::verif as hk;
    let which = args[0].clone();
    let n: usize = args.get(1).map(|x| x.parse().unwrap()).unwrap_or(2);
    let mut elems: Vec<Elem> = vec![];
    let mut bytes: Vec<u8> = vec![];
    match which.as_str() {
        "commit_raw" => {
            bytes.extend_from_slice(&(n as u64).to_le_bytes());
            for i in 0..n {
                let e = elem(ctx, &format!("p{i}"), 1, true);
                bytes.extend_from_slice(&e.bytes);
                elems.push(e);
            }
        }
        "commit_checked" => {
            for i in 0..n {
                let e = elem(ctx, &format!("p{i}"), 1, false);
                bytes.extend_from_slice(&e.bytes);
                elems.push(e);
            }
        }
        "opening" | "pp_checked" => {
            if which == "pp_checked" {
                // layout of PublicParameters::to_var_bytes: opening key then commit key
            }
            for (nm, grp) in [("g", 1u8), ("h", 2u8), ("xh", 2u8)] {
                let e = elem(ctx, nm, grp, false);
                bytes.extend_from_slice(&e.bytes);
                elems.push(e);
            }
            if which == "pp_checked" {
                for i in 0..n {
                    let e = elem(ctx, &format!("p{i}"), 1, false);
                    bytes.extend_from_slice(&e.bytes);
                    elems.push(e);
                }
            }
        }
        "polynomial" => {
            for i in 0..n {
                bytes.extend_from_slice(&noncanonical_scalar_bytes(ctx, &format!("s{i}")));
                let k = ctx.var(&format!("s{i}_kappa"));
                let nodes = json!({"kappa": ctx.scalar_json(&k)});
                elems.push(Elem { name: format!("s{i}"), grp: 0, nodes, bytes: vec![], invalid: env_flag(ctx, &format!("s{i}_kappa")) != 0 });
            }
        }
        "verifier" | "prover" => {
            // a valid serialized verifier / prover of a tiny circuit (concrete parameters) in which
            // every group element is replaced by an invalid-capable one
            let circuit = TinyCircuit { kind: 1, a: BlsScalar::from(3u64), b: BlsScalar::from(5u64) };
            let mut rng = crate::gadgets::ReplayRng(ctx.seed ^ 0x5eed17);
            let pp = PublicParameters::setup(32, &mut rng).expect("setup");
            let (prover, verifier) = Compiler::compile_with_circuit(&pp, b"validity", &circuit).expect("compile");
            let rd = |b: &[u8], i: usize| u64::from_be_bytes(<[u8; 8]>::try_from(&b[8 * i..8 * i + 8]).unwrap()) as usize;
            if which == "verifier" {
                bytes = verifier.to_bytes();
                let (label_len, vk_len) = (rd(&bytes, 0), rd(&bytes, 1));
                let vk0 = 48 + label_len;
                let ncomm = (vk_len - 8) / 48;
                for i in 0..ncomm.min(if n == 0 { ncomm } else { n }) {
                    // slots that are all zero in the honest encoding are padding, not elements
                    if bytes[vk0 + 8 + 48 * i..vk0 + 8 + 48 * (i + 1)].iter().all(|b| *b == 0) {
                        continue;
                    }
                    let e = elem(ctx, &format!("vk{i}"), 1, false);
                    bytes[vk0 + 8 + 48 * i..vk0 + 8 + 48 * (i + 1)].copy_from_slice(&e.bytes);
                    elems.push(e);
                }
                let ok0 = vk0 + vk_len;
                let mut off = ok0;
                for (nm, grp) in [("g", 1u8), ("h", 2u8), ("xh", 2u8)] {
                    let e = elem(ctx, nm, grp, false);
                    bytes[off..off + e.bytes.len()].copy_from_slice(&e.bytes);
                    off += e.bytes.len();
                    elems.push(e);
                }
            } else {
                bytes = prover.to_bytes();
                let (label_len, pk_len, ck_len, vk_len) = (rd(&bytes, 0), rd(&bytes, 1), rd(&bytes, 2), rd(&bytes, 3));
                let ck0 = 48 + label_len + pk_len;
                let npts = (ck_len - 8) / 97;
                for i in 0..npts.min(if n == 0 { npts } else { n }) {
                    let e = elem(ctx, &format!("p{i}"), 1, true);
                    bytes[ck0 + 8 + 97 * i..ck0 + 8 + 97 * (i + 1)].copy_from_slice(&e.bytes);
                    elems.push(e);
                }
                let vk0 = ck0 + ck_len;
                let ncomm = (vk_len - 8) / 48;
                for i in 0..ncomm.min(if n == 0 { ncomm } else { n }) {
                    if bytes[vk0 + 8 + 48 * i..vk0 + 8 + 48 * (i + 1)].iter().all(|b| *b == 0) {
                        continue;
                    }
                    let e = elem(ctx, &format!("vk{i}"), 1, false);
                    bytes[vk0 + 8 + 48 * i..vk0 + 8 + 48 * (i + 1)].copy_from_slice(&e.bytes);
                    elems.push(e);
                }
            }
        }
        _ => panic!("unknown decoder"),
    }
    let invalid_present = elems.iter().any(|e| e.invalid);
    ctx.out_json("elements", Value::Array(elems.iter().map(|e| json!({"name": e.name, "grp": e.grp, "nodes": e.nodes})).collect()));
    ctx.out_json("input_len", json!(bytes.len()));
    ctx.out_json("invalid_element_present", json!(invalid_present));
    crate::kernels::with_paths(ctx, "decode", true, |_ctx| {
        let r: Result<(), String> = match which.as_str() {
            "commit_raw" => hk::commit_key_from_raw_var_bytes(&bytes).map(|_| ()).map_err(|e| format!("{:?}", e)),
            "commit_checked" => hk::commit_key_from_slice(&bytes).map(|_| ()).map_err(|e| format!("{:?}", e)),
            "opening" => hk::opening_key_from_slice(&bytes).map(|_| ()).map_err(|e| format!("{:?}", e)),
            "polynomial" => hk::polynomial_from_slice(&bytes).map(|_| ()).map_err(|e| format!("{:?}", e)),
            "verifier" => Verifier::try_from_bytes(&bytes).map(|_| ()).map_err(|e| format!("{:?}", e)),
            "prover" => Prover::try_from_bytes(&bytes).map(|_| ()).map_err(|e| format!("{:?}", e)),
            // an accepted parameter set must be usable: its degree is queried right away
            _ => PublicParameters::from_slice(&bytes).map(|pp| { let _ = pp.max_degree(); }).map_err(|e| format!("{:?}", e)),
        };
        match r {
            Ok(()) => json!({"accepted": true}),
            Err(e) => json!({"accepted": false, "error": e}),
        }
    });
    ctx.meta.insert("functions".into(), json!(["CommitKey::from_raw_var_bytes", "CommitKey::from_slice", "OpeningKey::from_slice",
        "OpeningKey::try_new", "PublicParameters::from_slice", "G1Affine / G2Affine decoding and validity tests (group model with torsion and off-curve components)"]));
}
