use drvlib::*;

#[global_allocator]
static ALLOC: drvlib::counting_alloc::Counting = drvlib::counting_alloc::Counting;

fn main() {
    let args: Vec<String> = std::env::args().collect();
    let seed: u64 = std::env::var("VERIF_SEED").ok().and_then(|s| s.parse().ok()).unwrap_or(0);
    let cmd = args.get(1).map(|s| s.as_str()).unwrap_or("");
    let mut ctx = Ctx::new(seed);
    match cmd {
        "rows" => rows::run(&mut ctx),
        "component" => components::run(&mut ctx, &args[2..]),
        #[cfg(not(feature = "sym"))]
        "prove_component" => components::prove(&mut ctx, &args[2..]),
        "verify_labels" => protocol::run_verify_labels(&mut ctx, &args[2..]),
        "decode" => protocol::run_decode(&mut ctx, &args[2..]),
        "decode_alloc" => protocol::run_decode_alloc(&mut ctx, &args[2..]),
        "decode_probe" => protocol::run_decode_probe(&mut ctx, &args[2..]),
        "verify" => protocol::run_verify(&mut ctx, &args[2..]),
        "kernels" => kernels::run(&mut ctx, &args[2..]),
        "kzg" => kernels::run_kzg(&mut ctx, &args[2..]),
        "compress_routes" => protocol::run_compress_routes(&mut ctx, &args[2..]),
        "proof_canon" => protocol::run_proof_canon(&mut ctx, &args[2..]),
        "decode_validity" => protocol::run_decode_validity(&mut ctx, &args[2..]),
        "roundtrip" => protocol::run_roundtrip(&mut ctx, &args[2..]),
        "prove_w" => protocol::run_prove_w(&mut ctx, &args[2..]),
        "prove" => protocol::run_prove(&mut ctx, &args[2..]),
        "extract" => gadgets::run(&mut ctx, &args[2..]),
        "extract_batch" => gadgets::run_batch(&mut ctx, &args[2..]),
        "prove_gadget" => gadgets::prove(&mut ctx, &args[2..]),
        _ => {
            eprintln!("unknown driver {cmd}");
            std::process::exit(3);
        }
    }
    println!("{}", serde_json::to_string(&ctx.finish()).unwrap());
}
