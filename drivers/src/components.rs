//! Composer components executed on the (symbolic) field: every witness value
//! and every free selector is a variable; symbolic branches are explored by
//! the path oracle.  In the real build the same code runs on concrete values
//! (translator validation / replay).

use dusk_plonk::prelude::*;
use serde_json::{json, Value};

use crate::{BlsScalar, Ctx};

/// Snapshot with scalars rendered through `ctx.scalar_json` (node ids in the
/// symbolic build, hex in the real build).
pub fn snapshot(ctx: &Ctx, c: &Composer) -> Value {
    let (gates, wit, pis) = c.verif_snapshot();
    let g: Vec<Value> = gates
        .iter()
        .map(|(s, w)| json!([s.iter().map(|x| ctx.scalar_json(x)).collect::<Vec<_>>(), w.to_vec()]))
        .collect();
    json!({
        "gates": g,
        "witnesses": wit.iter().map(|x| ctx.scalar_json(x)).collect::<Vec<_>>(),
        "pis": pis.iter().map(|(r, v)| json!([r, ctx.scalar_json(v)])).collect::<Vec<_>>(),
    })
}

fn wires(c: &mut Composer, ctx: &mut Ctx, pattern: &str, inputs: &mut Vec<(String, usize)>) -> [Witness; 4] {
    // pattern: 4 digits, equal digits share a witness ("0123" all distinct)
    let mut made: Vec<(char, Witness)> = vec![];
    let mut out = [Composer::ZERO; 4];
    for (i, ch) in pattern.chars().enumerate() {
        let w = if let Some((_, w)) = made.iter().find(|(c0, _)| *c0 == ch) {
            *w
        } else {
            let name = format!("x{}", ch);
            let v = ctx.var(&name);
            let w = c.append_witness(v);
            inputs.push((name, w.index()));
            made.push((ch, w));
            w
        };
        out[i] = w;
    }
    out
}

/// extended point with free coordinates `<p>u <p>v <p>z <p>t1 <p>t2`
fn sym_extended(ctx: &mut Ctx, p: &str) -> JubJubExtended {
    JubJubExtended::from_raw_unchecked(
        ctx.var(&format!("{p}u")),
        ctx.var(&format!("{p}v")),
        ctx.var(&format!("{p}z")),
        ctx.var(&format!("{p}t1")),
        ctx.var(&format!("{p}t2")),
    )
}

/// witness point with free coordinates `<p>x <p>y`
fn wpoint(c: &mut Composer, ctx: &mut Ctx, p: &str, inputs: &mut Vec<(String, usize)>) -> WitnessPoint {
    let xn = format!("{p}x");
    let yn = format!("{p}y");
    let x = c.append_witness(ctx.var(&xn));
    let y = c.append_witness(ctx.var(&yn));
    inputs.push((xn, x.index()));
    inputs.push((yn, y.index()));
    Composer::verif_witness_point(x, y)
}

fn sym_constraint(ctx: &mut Ctx, w: [Witness; 4], with_pi: bool) -> Constraint {
    let mut k = Constraint::new()
        .mult(ctx.var("q_m"))
        .left(ctx.var("q_l"))
        .right(ctx.var("q_r"))
        .output(ctx.var("q_o"))
        .fourth(ctx.var("q_f"))
        .constant(ctx.var("q_c"))
        .a(w[0])
        .b(w[1])
        .c(w[2])
        .d(w[3]);
    if with_pi {
        k = k.public(ctx.var("pi"));
    }
    k
}

/// Run one component; returns (inputs, returned, error)
pub fn component(
    c: &mut Composer,
    ctx: &mut Ctx,
    args: &[String],
) -> (Vec<(String, usize)>, Vec<(String, Value)>, Option<String>) {
    let name = args[0].as_str();
    let mut inputs: Vec<(String, usize)> = vec![];
    let mut ret: Vec<(String, Value)> = vec![];
    let mut err = None;
    let pat = args.get(1).map(|s| s.as_str()).unwrap_or("0123");
    let with_pi = args.get(2).map(|s| s == "pi").unwrap_or(false);
    let mut one = |c: &mut Composer, ctx: &mut Ctx, n: &str, inputs: &mut Vec<(String, usize)>| -> Witness {
        let v = ctx.var(n);
        let w = c.append_witness(v);
        inputs.push((n.to_string(), w.index()));
        w
    };
    match name {
        "append_gate" => {
            let w = wires(c, ctx, pat, &mut inputs);
            let k = sym_constraint(ctx, w, with_pi);
            c.append_gate(k);
        }
        "append_evaluated_output" => {
            let w = wires(c, ctx, pat, &mut inputs);
            let k = sym_constraint(ctx, w, with_pi);
            let o = c.append_evaluated_output(k);
            ret.push(("out".into(), json!(o.map(|w| w.index()))));
        }
        "gate_add" | "gate_mul" => {
            let w = wires(c, ctx, pat, &mut inputs);
            let k = sym_constraint(ctx, w, with_pi);
            let o = if name == "gate_add" { c.gate_add(k) } else { c.gate_mul(k) };
            ret.push(("out".into(), json!(o.index())));
        }
        "assert_equal" => {
            let a = one(c, ctx, "x0", &mut inputs);
            let b = if pat == "00" { a } else { one(c, ctx, "x1", &mut inputs) };
            c.assert_equal(a, b);
        }
        "assert_equal_constant" => {
            let a = one(c, ctx, "x0", &mut inputs);
            let k = ctx.var("k");
            let p = if with_pi { Some(ctx.var("pi")) } else { None };
            c.assert_equal_constant(a, k, p);
        }
        "append_constant" => {
            let k = ctx.var("k");
            let w = c.append_constant(k);
            ret.push(("out".into(), json!(w.index())));
        }
        "append_public" => {
            let k = ctx.var("pi");
            let w = c.append_public(k);
            ret.push(("out".into(), json!(w.index())));
        }
        "component_boolean" => {
            let a = one(c, ctx, "x0", &mut inputs);
            c.component_boolean(a);
        }
        "component_select" => {
            let bit = one(c, ctx, "bit", &mut inputs);
            let a = one(c, ctx, "x0", &mut inputs);
            let b = if pat == "00" { a } else { one(c, ctx, "x1", &mut inputs) };
            let o = c.component_select(bit, a, b);
            ret.push(("out".into(), json!(o.index())));
        }
        "component_select_one" | "component_select_zero" => {
            let bit = one(c, ctx, "bit", &mut inputs);
            let a = if pat == "00" { bit } else { one(c, ctx, "x0", &mut inputs) };
            let o = if name == "component_select_one" {
                c.component_select_one(bit, a)
            } else {
                c.component_select_zero(bit, a)
            };
            ret.push(("out".into(), json!(o.index())));
        }
        // ---- curve-point components (symbolic coordinates) --------------------
        "append_point" | "append_public_point" | "append_constant_point" => {
            let e = sym_extended(ctx, "p");
            let r = match name {
                "append_point" => c.append_point(e).map(|w| (*w.x(), *w.y())),
                "append_public_point" => c.append_public_point(e).map(|w| (*w.x(), *w.y())),
                _ => c.append_constant_point(e).map(|w| (*w.x(), *w.y())),
            };
            match r {
                Ok((x, y)) => ret.push(("out".into(), json!([x.index(), y.index()]))),
                Err(e) => err = Some(format!("{:?}", e)),
            }
        }
        "assert_equal_public_point" => {
            let wp = wpoint(c, ctx, "q", &mut inputs);
            let e = sym_extended(ctx, "p");
            if let Err(e) = c.assert_equal_public_point(wp, e) {
                err = Some(format!("{:?}", e));
            }
        }
        "assert_equal_point" => {
            let a = wpoint(c, ctx, "p", &mut inputs);
            let b = wpoint(c, ctx, "q", &mut inputs);
            c.assert_equal_point(a, b);
        }
        "assert_torsion_free_point" => {
            let wp = wpoint(c, ctx, "p", &mut inputs);
            let t = c.assert_torsion_free_point(wp);
            ret.push(("out".into(), json!([t.x().index(), t.y().index()])));
        }
        "component_add_point" | "component_sub_point" => {
            let a = TorsionFreeWitnessPoint::new_unchecked(wpoint(c, ctx, "p", &mut inputs));
            let b = if pat == "00" { a } else { TorsionFreeWitnessPoint::new_unchecked(wpoint(c, ctx, "q", &mut inputs)) };
            let r = if name == "component_add_point" { c.component_add_point(a, b) } else { c.component_sub_point(a, b) };
            ret.push(("out".into(), json!([r.x().index(), r.y().index()])));
        }
        "component_neg_point" => {
            let a = TorsionFreeWitnessPoint::new_unchecked(wpoint(c, ctx, "p", &mut inputs));
            let r = c.component_neg_point(a);
            ret.push(("out".into(), json!([r.x().index(), r.y().index()])));
        }
        "component_select_identity" => {
            let bit = one(c, ctx, "bit", &mut inputs);
            let a = TorsionFreeWitnessPoint::new_unchecked(wpoint(c, ctx, "p", &mut inputs));
            let r = c.component_select_identity(bit, a);
            ret.push(("out".into(), json!([r.x().index(), r.y().index()])));
        }
        "component_select_point" => {
            let bit = one(c, ctx, "bit", &mut inputs);
            let a = wpoint(c, ctx, "p", &mut inputs);
            let b = wpoint(c, ctx, "q", &mut inputs);
            let r = c.component_select_point(bit, a, b);
            ret.push(("out".into(), json!([r.x().index(), r.y().index()])));
        }
        "add_point_gates" => {
            // untyped addition seam (arbitrary coordinate pairs)
            let a = wpoint(c, ctx, "p", &mut inputs);
            let b = if pat == "00" { a } else { wpoint(c, ctx, "q", &mut inputs) };
            let r = c.verif_add_point_gates(a, b);
            ret.push(("out".into(), json!([r.x().index(), r.y().index()])));
        }
        "generator_check" => {
            // the native validity check of component_mul_generator (scalar witness concrete)
            let s = c.append_witness(BlsScalar::from(5u64));
            let e = sym_extended(ctx, "p");
            match c.component_mul_generator(s, e) {
                Ok(w) => ret.push(("out".into(), json!([w.x().index(), w.y().index()]))),
                Err(e) => err = Some(format!("{:?}", e)),
            }
        }
        "entry_history" => {
            // the native validity checks on a FRESH composer and on a composer WITH HISTORY (the same
            // entry point already used with the honest standard generator), same input: a
            // representation of the standard generator whose auxiliary coordinates T1, T2 are free
            // (pat = "t") or whose Z and coordinates are scaled by a free factor (pat = "z")
            let g = dusk_jubjub::GENERATOR_EXTENDED;
            let ga = dusk_jubjub::JubJubAffine::from(g);
            let e = if pat == "z" {
                let z = ctx.var("hz");
                JubJubExtended::from_raw_unchecked(ga.get_u() * z, ga.get_v() * z, z, ctx.var("ht1"), ctx.var("ht2"))
            } else {
                JubJubExtended::from_raw_unchecked(ga.get_u(), ga.get_v(), BlsScalar::one(), ctx.var("ht1"), ctx.var("ht2"))
            };
            let show = |r: Result<(), Error>| match r {
                Ok(()) => "Ok".to_string(),
                Err(e) => format!("Err({:?})", e),
            };
            let mut outs = vec![];
            for entry in ["mul_generator", "constant_point"] {
                for history in [false, true] {
                    let mut k = Composer::initialized();
                    let s = k.append_witness(BlsScalar::from(5u64));
                    if history {
                        let _ = k.component_mul_generator(s, g);
                        let _ = k.append_constant_point(g);
                    }
                    let r = if entry == "mul_generator" {
                        k.component_mul_generator(s, e).map(|_| ())
                    } else {
                        k.append_constant_point(e).map(|_| ())
                    };
                    outs.push(json!({"entry": entry, "history": history, "result": show(r)}));
                }
            }
            ret.push(("outcomes".into(), Value::Array(outs)));
        }
        "point_predicates" => {
            // the dependency's predicates on the same symbolic point, one after the other:
            // the recorded comparisons identify each predicate in other paths
            let e = sym_extended(ctx, "p");
            let z0 = e.get_z() == BlsScalar::zero();
            ret.push(("z_is_zero".into(), json!(z0)));
            crate::mark("on_curve");
            let oc = bool::from(e.is_on_curve());
            crate::mark("torsion_free");
            let tf = bool::from(e.is_torsion_free());
            crate::mark("identity");
            let id = bool::from(e.is_identity());
            crate::mark("end");
            ret.push(("results".into(), json!([oc, tf, id])));
        }
        _ => {
            err = Some(format!("unknown component {name}"));
        }
    }
    (inputs, ret, err)
}

fn one_run(ctx: &mut Ctx, args: &[String]) -> Value {
    let mut c = Composer::initialized();
    let init_rows = c.constraints();
    let (inputs, ret, err) = component(&mut c, ctx, args);
    let mut s = snapshot(ctx, &c);
    let o = s.as_object_mut().unwrap();
    o.insert(
        "inputs".into(),
        Value::Object(inputs.into_iter().map(|(k, v)| (k, json!(v))).collect()),
    );
    o.insert("returned".into(), Value::Object(ret.into_iter().collect()));
    o.insert("init_rows".into(), json!(init_rows));
    o.insert("error".into(), json!(err));
    s
}

/// `component <name> [pattern] [pi]`: all paths.
pub fn run(ctx: &mut Ctx, args: &[String]) {
    #[cfg(feature = "sym")]
    {
        if std::env::var("VERIF_PREDICATES").is_ok() {
            // the dependency's point predicates on the same symbolic point, in the same arena
            // (hash-consing gives the same node ids to the same comparisons in every path)
            dusk_bls12_381::sym::begin_run(&[], false);
            let e = sym_extended(ctx, "p");
            let mut marks = vec![];
            let mut at = |name: &str| {
                let (_t, path) = dusk_bls12_381::sym::end_run();
                marks.push(json!({"mark": name, "at": path.len()}));
            };
            let _ = e.get_z() == BlsScalar::zero();
            at("torsion_free");
            let _ = bool::from(e.is_torsion_free());
            at("identity");
            let _ = bool::from(e.is_identity());
            at("end");
            let (_t, path) = dusk_bls12_381::sym::end_run();
            ctx.out_json("predicates", json!({"path": crate::path_json(&path), "marks": marks}));
        }
        let max_paths = std::env::var("VERIF_MAX_PATHS").ok().and_then(|s| s.parse().ok()).unwrap_or(64);
        let mut paths = vec![];
        // first make sure variables exist in a stable order
        let (res, complete) = dusk_bls12_381::sym::explore(max_paths, true, || one_run(ctx, args));
        for (taken, path, r, ev) in res {
            let (result, panic) = match r {
                Ok(v) => (v, Value::Null),
                Err(m) => (Value::Null, json!(m)),
            };
            let events: Vec<Value> = ev.iter().map(|e| serde_json::from_str(e).unwrap_or(json!(e))).collect();
            paths.push(json!({
                "decisions": taken,
                "path": crate::path_json(&path),
                "layout": result,
                "panic": panic,
                "events": events,
            }));
        }
        ctx.out_json("paths", Value::Array(paths));
        ctx.meta.insert("complete".into(), json!(complete));
        ctx.meta.insert("max_paths".into(), json!(max_paths));
    }
    #[cfg(not(feature = "sym"))]
    {
        let r = std::panic::catch_unwind(std::panic::AssertUnwindSafe(|| one_run(ctx, args)));
        let v = match r {
            Ok(v) => json!({"layout": v, "panic": Value::Null}),
            Err(_) => json!({"layout": Value::Null, "panic": "panic"}),
        };
        ctx.out_json("paths", json!([v]));
    }
}

/// Circuit wrapper for replays: one component, named inputs from the
/// environment, optional witness overrides `w<i>`.
#[derive(Default, Clone)]
pub struct ComponentCircuit {
    pub args: Vec<String>,
    pub seed: u64,
    pub overrides: Vec<(usize, crate::BlsScalar)>,
}

impl Circuit for ComponentCircuit {
    fn circuit(&self, c: &mut Composer) -> Result<(), Error> {
        let mut ctx = Ctx::new(self.seed);
        let (_, _, err) = component(c, &mut ctx, &self.args);
        if err.is_some() {
            return Err(Error::CircuitInputsNotFound);
        }
        for (i, v) in &self.overrides {
            c.verif_set_witness(Composer::verif_witness(*i), *v);
        }
        Ok(())
    }
}

/// `prove_component <name> [pattern] [pi]`: replay through the real compiler,
/// prover and verifier.
#[cfg(not(feature = "sym"))]
pub fn prove(ctx: &mut Ctx, args: &[String]) {
    use crate::gadgets::ReplayRng;
    let honest = ComponentCircuit { args: args.to_vec(), seed: ctx.seed, overrides: vec![] };
    let mut forged = honest.clone();
    if let Some(env) = ctx.env_override.clone() {
        for (k, v) in env.iter() {
            if let (Some(idx), Value::String(h)) = (k.strip_prefix('w'), v) {
                if let Ok(i) = idx.parse::<usize>() {
                    forged.overrides.push((i, crate::from_hex(h)));
                }
            }
        }
    }
    let mut probe = Composer::initialized();
    honest.circuit(&mut probe).unwrap();
    ctx.out_json("layout", snapshot(ctx, &probe));
    let n = probe.constraints();
    let mut rng = ReplayRng(ctx.seed ^ 0x5eed);
    let pp = PublicParameters::setup((n + 8).next_power_of_two() + 8, &mut rng).expect("setup");
    let (prover, verifier) =
        Compiler::compile_with_circuit(&pp, b"verif-replay", &honest).expect("compile");
    match prover.prove(&mut rng, &forged) {
        Ok((proof, pis)) => {
            ctx.out_json("proved", json!(true));
            let v = verifier.verify(&proof, &pis);
            ctx.out_json("verified", json!(v.is_ok()));
            ctx.out_json("error", json!(format!("{:?}", v.err())));
        }
        Err(e) => {
            ctx.out_json("proved", json!(false));
            ctx.out_json("verified", json!(false));
            ctx.out_json("error", json!(format!("{:?}", e)));
        }
    }
}
