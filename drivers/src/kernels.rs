//! FFT / polynomial / utility kernels on symbolic vectors (C19) and KZG (C20).

use dusk_plonk::verif as hk;
use serde_json::{json, Value};

use crate::{BlsScalar, Ctx};

fn vars(ctx: &mut Ctx, prefix: &str, n: usize) -> Vec<BlsScalar> {
    (0..n).map(|i| ctx.var(&format!("{prefix}{i}"))).collect()
}

fn jv(ctx: &Ctx, v: &[BlsScalar]) -> Value {
    Value::Array(v.iter().map(|x| ctx.scalar_json(x)).collect())
}

/// run `f` under the path explorer (symbolic build) or once (concrete builds);
/// `f` returns a JSON value built with ctx.scalar_json
pub fn with_paths(ctx: &mut Ctx, name: &str, all: bool, mut f: impl FnMut(&mut Ctx) -> Value) {
    #[cfg(feature = "sym")]
    if !ctx.concrete {
        let budget = std::env::var("VERIF_MAX_PATHS").ok().and_then(|s| s.parse().ok()).unwrap_or(256);
        let (res, complete) = dusk_bls12_381::sym::explore(budget, all, || f(ctx));
        let mut paths = vec![];
        for (taken, path, r, _ev) in res {
            let (result, panic) = match r {
                Ok(v) => (v, Value::Null),
                Err(m) => (Value::Null, json!(m)),
            };
            paths.push(json!({"decisions": taken, "path": crate::path_json(&path), "result": result, "panic": panic}));
        }
        ctx.out_json(name, json!({"paths": paths, "complete": complete}));
        return;
    }
    let _ = all;
    let r = std::panic::catch_unwind(std::panic::AssertUnwindSafe(|| f(ctx)));
    let v = match r {
        Ok(v) => json!({"result": v, "panic": Value::Null}),
        Err(_) => json!({"result": Value::Null, "panic": "panic"}),
    };
    ctx.out_json(name, json!({"paths": [v], "complete": true}));
}

/// `kernels fft <log_size> <len>` etc.
pub fn run(ctx: &mut Ctx, args: &[String]) {
    let what = args[0].as_str();
    let p = |i: usize| -> usize { args[i].parse().expect("numeric") };
    match what {
        "fft" | "ifft" | "coset_fft" | "coset_ifft" => {
            let n = 1usize << p(1);
            let len = p(2);
            let v = vars(ctx, "x", len);
            let out = match what {
                "fft" => hk::fft(n, &v),
                "ifft" => hk::ifft(n, &v),
                "coset_fft" => hk::coset_fft(n, &v),
                _ => hk::coset_ifft(n, &v),
            };
            ctx.out_json("out", jv(ctx, &out));
            let (size, w, winv, sinv, g) = hk::domain_params(n);
            ctx.out_json("domain", json!({"size": size, "w": crate::hex(&w), "winv": crate::hex(&winv),
                                          "size_inv": crate::hex(&sinv), "g": crate::hex(&g)}));
        }
        "fft_sparse" => {
            // fft_sparse <op> <log_n> <p0,p1,..>: a vector of length n whose entries at the listed
            // positions are symbolic and all others concrete (seed-derived); run under the rayon pool
            // size given by RAYON_NUM_THREADS (the parallel kernels start at n = 2^12)
            let op = args[1].as_str();
            let n = 1usize << p(2);
            let pos: Vec<usize> = args[3].split(',').filter(|x| !x.is_empty()).map(|x| x.parse().unwrap()).collect();
            let v: Vec<BlsScalar> = (0..n)
                .map(|i| {
                    if pos.contains(&i) {
                        ctx.var(&format!("x{i}"))
                    } else {
                        crate::concrete_from_name(ctx.seed ^ 0xff7, &format!("c{i}"))
                    }
                })
                .collect();
            let out = match op {
                "fft" => hk::fft(n, &v),
                "ifft" => hk::ifft(n, &v),
                "coset_fft" => hk::coset_fft(n, &v),
                _ => hk::coset_ifft(n, &v),
            };
            ctx.out_json("out", jv(ctx, &out));
            ctx.out_json("input", Value::Array(v.iter().enumerate().map(|(i, x)| if pos.contains(&i) { Value::Null } else { json!(crate::hex(x)) }).collect()));
            let (size, w, winv, sinv, g) = hk::domain_params(n);
            ctx.out_json("domain", json!({"size": size, "w": crate::hex(&w), "winv": crate::hex(&winv),
                                          "size_inv": crate::hex(&sinv), "g": crate::hex(&g)}));
            ctx.out_json("threads", json!(std::env::var("RAYON_NUM_THREADS").ok()));
        }
        "poly" => {
            // poly <op> <la> <lb>
            let op = args[1].as_str();
            let (la, lb) = (p(2), p(3));
            let a = vars(ctx, "a", la);
            let b = vars(ctx, "b", lb);
            let s = ctx.var("s");
            let all = true;
            let opn = op.to_string();
            with_paths(ctx, "poly", all, move |ctx| {
                let out = match opn.as_str() {
                    "add" => hk::poly_add(&a, &b),
                    "sub" => hk::poly_sub(&a, &b),
                    "mul" => hk::poly_mul(&a, &b),
                    "scale" => hk::poly_scale(&a, &s),
                    "ruffini" => hk::poly_ruffini(&a, s),
                    "evaluate" => vec![hk::poly_evaluate(&a, &s)],
                    "normalize" => hk::poly_normalize(&a),
                    _ => panic!("unknown poly op"),
                };
                jv(ctx, &out)
            });
        }
        "batch_inversion" => {
            let len = p(1);
            let v = vars(ctx, "x", len);
            with_paths(ctx, "batch_inversion", true, move |ctx| {
                let mut w = v.clone();
                hk::batch_inversion(&mut w);
                jv(ctx, &w)
            });
        }
        "lagrange" => {
            let n = 1usize << p(1);
            let tau = ctx.var("tau");
            with_paths(ctx, "lagrange", true, move |ctx| jv(ctx, &hk::lagrange_coefficients(n, tau)));
            let (size, w, winv, sinv, g) = hk::domain_params(n);
            ctx.out_json("domain", json!({"size": size, "w": crate::hex(&w), "winv": crate::hex(&winv),
                                          "size_inv": crate::hex(&sinv), "g": crate::hex(&g)}));
        }
        "vanishing" => {
            let n = 1usize << p(1);
            let tau = ctx.var("tau");
            let r = hk::vanishing_eval(n, &tau);
            ctx.out("out", &r);
        }
        "vanishing_coset" => {
            // concrete: no symbolic input
            let n8 = 1usize << p(1);
            let deg = p(2) as u64;
            let v = hk::vanishing_over_coset(n8, deg);
            ctx.out_json("out", Value::Array(v.iter().map(|x| json!(crate::hex(x))).collect()));
            ctx.out_json("matches", json!(hk::matches_vanishing_over_coset(n8, deg, &v)));
        }
        "barycentric" => {
            let n = 1usize << p(1);
            let len = p(2);
            let ev = vars(ctx, "e", len);
            let tau = ctx.var("tau");
            with_paths(ctx, "barycentric", false, move |ctx| {
                let r = hk::barycentric_eval(n, &ev, &tau);
                ctx.scalar_json(&r)
            });
            let (size, w, winv, sinv, g) = hk::domain_params(n);
            ctx.out_json("domain", json!({"size": size, "w": crate::hex(&w), "winv": crate::hex(&winv),
                                          "size_inv": crate::hex(&sinv), "g": crate::hex(&g)}));
        }
        _ => panic!("unknown kernel {what}"),
    }
}

// ---------------------------------------------------------------------------
// KZG (C20)
// ---------------------------------------------------------------------------
use dusk_bls12_381::{G1Affine, G2Affine};
use dusk_plonk::prelude::PublicParameters;

/// RNG whose k-th 64-byte draw reduces to the scalar `ctx.var("rng<k>")`
/// (symbolic in the symbolic build); every draw is logged.
pub struct ScriptedRng {
    pub values: Vec<BlsScalar>,
    pub next: usize,
    pub log: Vec<(usize, String)>,
}

impl ScriptedRng {
    pub fn new(ctx: &mut Ctx, n: usize) -> Self {
        Self::with_prefix(ctx, "rng", n)
    }
    pub fn with_prefix(ctx: &mut Ctx, prefix: &str, n: usize) -> Self {
        let values = (0..n).map(|i| ctx.var(&format!("{prefix}{i}"))).collect();
        ScriptedRng { values, next: 0, log: vec![] }
    }
}

impl rand_core::RngCore for ScriptedRng {
    fn next_u32(&mut self) -> u32 {
        self.log.push((0, "next_u32".into()));
        panic!("scripted rng: next_u32 is not part of the documented randomness interface")
    }
    fn next_u64(&mut self) -> u64 {
        self.log.push((0, "next_u64".into()));
        panic!("scripted rng: next_u64 is not part of the documented randomness interface")
    }
    fn fill_bytes(&mut self, dest: &mut [u8]) {
        self.log.push((dest.len(), format!("fill_bytes#{}", self.next)));
        assert!(dest.len() == 64, "scripted rng: unexpected draw size {}", dest.len());
        let v = self.values[self.next];
        self.next += 1;
        for b in dest.iter_mut() {
            *b = 0;
        }
        // canonical (or tagged) 32 bytes, zero-extended: from_bytes_wide gives v back
        dest[..32].copy_from_slice(&v.to_bytes());
    }
    fn try_fill_bytes(&mut self, dest: &mut [u8]) -> Result<(), rand_core::Error> {
        self.fill_bytes(dest);
        Ok(())
    }
}
impl rand_core::CryptoRng for ScriptedRng {}

pub fn g1_dlog(ctx: &Ctx, p: &G1Affine) -> Value {
    #[cfg(feature = "sym")]
    if !ctx.concrete {
        return json!(p.sym_lift());
    }
    let _ = ctx;
    json!(format!("g1:{}", p.to_compressed().iter().map(|b| format!("{:02x}", b)).collect::<String>()))
}
pub fn g2_dlog(ctx: &Ctx, p: &G2Affine) -> Value {
    #[cfg(feature = "sym")]
    if !ctx.concrete {
        return json!(p.sym_lift());
    }
    let _ = ctx;
    json!(format!("g2:{}", p.to_compressed().iter().map(|b| format!("{:02x}", b)).collect::<String>()))
}

/// `kzg setup <degree>` | `kzg commit <degree> <len>` | `kzg open <degree> <npolys> <len>` |
/// `kzg batch <k>` | `kzg trim <degree> <n>`
pub fn run_kzg(ctx: &mut Ctx, args: &[String]) {
    let what = args[0].as_str();
    let p = |i: usize| -> usize { args[i].parse().expect("numeric") };
    let setup = |ctx: &mut Ctx, deg: usize| -> Result<PublicParameters, String> {
        let mut rng = ScriptedRng::new(ctx, 8);
        let r = PublicParameters::setup(deg, &mut rng).map_err(|e| format!("{:?}", e));
        ctx.out_json("rng_log", json!(rng.log));
        r
    };
    match what {
        "setup" => {
            let deg = p(1);
            with_paths(ctx, "setup", false, |ctx| match setup(ctx, deg) {
                Ok(pp) => {
                    let (pw, g, h, xh) = hk::pp_parts(&pp);
                    json!({"powers": pw.iter().map(|x| g1_dlog(ctx, x)).collect::<Vec<_>>(),
                           "g": g1_dlog(ctx, &g), "h": g2_dlog(ctx, &h), "x_h": g2_dlog(ctx, &xh)})
                }
                Err(e) => json!({"err": e}),
            });
        }
        "commit" => {
            let (deg, len) = (p(1), p(2));
            let coeffs = vars(ctx, "c", len);
            // the SRS is generated once, on the generic path (draws non-zero)
            let pp = setup(ctx, deg).expect("setup");
            with_paths(ctx, "commit", true, |ctx| {
                let (ck, _) = hk::pp_trim(&pp, deg).expect("trim");
                match hk::kzg_commit(&ck, &coeffs) {
                    Ok(c) => json!({"commitment": g1_dlog(ctx, &c), "key_len": hk::commit_key_powers(&ck).len()}),
                    Err(e) => json!({"err": format!("{:?}", e), "key_len": hk::commit_key_powers(&ck).len()}),
                }
            });
        }
        "open" => {
            // aggregated opening of `np` polynomials of length `len` at one point
            let (deg, np, len) = (p(1), p(2), p(3));
            let polys: Vec<Vec<BlsScalar>> = (0..np).map(|j| vars(ctx, &format!("p{j}_"), len)).collect();
            let z = ctx.var("z");
            let v = ctx.var("v");
            let pp = setup(ctx, deg).expect("setup");
            with_paths(ctx, "open", true, |ctx| {
                let (ck, ok) = hk::pp_trim(&pp, deg).expect("trim");
                let w = hk::kzg_aggregate_witness(&polys, &z, &v);
                let wc = hk::kzg_commit(&ck, &w).expect("commit witness");
                let parts: Vec<(BlsScalar, G1Affine)> = polys
                    .iter()
                    .map(|pl| (hk::poly_evaluate(pl, &z), hk::kzg_commit(&ck, pl).expect("commit")))
                    .collect();
                let flat = hk::kzg_flatten(wc, &parts, &v);
                let r = hk::kzg_batch_check(&ok, &[z], &[flat], b"kzg-verif");
                json!({"witness_coeffs": jv(ctx, &w), "witness": g1_dlog(ctx, &wc),
                       "flat_eval": ctx.scalar_json(&flat.1), "flat_comm": g1_dlog(ctx, &flat.2),
                       "evals": parts.iter().map(|(e, _)| ctx.scalar_json(e)).collect::<Vec<_>>(),
                       "comms": parts.iter().map(|(_, c)| g1_dlog(ctx, c)).collect::<Vec<_>>(),
                       "check": format!("{:?}", r)})
            });
        }
        "batch" => {
            // batch_check of k arbitrary (witness, evaluation, commitment) triples at k points
            let k = p(1);
            let kp = args.get(2).map(|s| s.parse().unwrap()).unwrap_or(k);
            #[cfg(feature = "sym")]
            {
                dusk_bls12_381::sym::set_transcript_symbolic(true);
                if ctx.concrete {
                    // replay: concrete values, random oracle scripted from the environment
                    // (keys ch_<label>_<hash>)
                    let mut script = vec![];
                    if let Some(env) = ctx.env_override.clone() {
                        for (k, v) in env.iter() {
                            if let (Some(rest), Value::String(h)) = (k.strip_prefix("ch_"), v) {
                                let lab = match rest.rfind('_') {
                                    Some(i) => &rest[..i],
                                    None => rest,
                                };
                                script.push((lab.to_string(), crate::from_hex(h)));
                            }
                        }
                    }
                    dusk_bls12_381::sym::set_challenge_script(script);
                }
            }
            let g = crate::protocol::g1(ctx, "ok_g");
            let h = crate::protocol::g2(ctx, "ok_h");
            let xh = crate::protocol::g2(ctx, "ok_xh");
            let proofs: Vec<(G1Affine, BlsScalar, G1Affine)> = (0..k)
                .map(|j| {
                    (crate::protocol::g1(ctx, &format!("w{j}")), ctx.var(&format!("e{j}")),
                     crate::protocol::g1(ctx, &format!("c{j}")))
                })
                .collect();
            let points = vars(ctx, "z", kp);
            with_paths(ctx, "batch", true, |ctx| {
                let ok = match hk::opening_key_new(g, h, xh) {
                    Ok(k) => k,
                    Err(e) => return json!({"check": format!("key Err({:?})", e)}),
                };
                let r = hk::kzg_batch_check(&ok, &points, &proofs, b"kzg-verif");
                #[cfg(feature = "sym")]
                let ev = dusk_bls12_381::sym::take_events();
                #[cfg(not(feature = "sym"))]
                let ev: Vec<String> = vec![];
                json!({"check": format!("{:?}", r),
                       "events": ev.iter().map(|e| serde_json::from_str::<Value>(e).unwrap_or(json!(e))).collect::<Vec<_>>()})
            });
        }
        "capacity" => {
            // capacity <c> <deg>: a circuit with exactly c constraints against setup(deg): outcome of
            // direct compilation and of the compressed route (replay of capacity counterexamples)
            let (cn, deg) = (p(1), p(2));
            use dusk_plonk::prelude::{Circuit, Compiler, Composer, Constraint, Error};
            #[derive(Clone, Default)]
            struct Adds(usize);
            impl Circuit for Adds {
                fn circuit(&self, c: &mut Composer) -> Result<(), Error> {
                    let a = c.append_witness(BlsScalar::from(3u64));
                    let mut acc = a;
                    for _ in 0..self.0 {
                        acc = c.gate_add(Constraint::new().left(1).right(1).a(acc).b(a));
                    }
                    Ok(())
                }
            }
            let circuit = Adds(cn.saturating_sub(4));
            let mut rng = crate::gadgets::ReplayRng(11);
            let pp = PublicParameters::setup(deg, &mut rng).expect("setup");
            let mut direct = Composer::initialized();
            circuit.circuit(&mut direct).unwrap();
            ctx.out_json("constraints", json!(direct.constraints()));
            ctx.out_json("key_length", json!(hk::pp_parts(&pp).0.len()));
            let d = std::panic::catch_unwind(std::panic::AssertUnwindSafe(|| Compiler::compile_with_circuit(&pp, b"cap", &circuit).map(|_| ())));
            ctx.out_json("direct", json!(match d { Ok(Ok(())) => "Ok".to_string(), Ok(Err(e)) => format!("Err({:?})", e), Err(_) => "PANIC".to_string() }));
            let compressed = direct.clone().verif_compress(true);
            let r = std::panic::catch_unwind(std::panic::AssertUnwindSafe(|| Compiler::compile_with_compressed(&pp, b"cap", &compressed).map(|_| ())));
            ctx.out_json("compressed", json!(match r { Ok(Ok(())) => "Ok".to_string(), Ok(Err(e)) => format!("Err({:?})", e), Err(_) => "PANIC".to_string() }));
        }
        "trim" => {
            let (deg, n) = (p(1), p(2));
            let mut rng = crate::gadgets::ReplayRng(7);
            let pp = PublicParameters::setup(deg, &mut rng).expect("setup");
            let r = hk::pp_trim(&pp, n);
            ctx.out_json("max_degree", json!(pp.max_degree()));
            ctx.out_json("trim", match r {
                Ok((ck, _)) => json!({"ok": hk::commit_key_powers(&ck).len()}),
                Err(e) => json!({"err": format!("{:?}", e)}),
            });
        }
        _ => panic!("unknown kzg op"),
    }
}
