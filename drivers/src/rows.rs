//! Row semantics: the real widget `compute_quotient_i` functions on free
//! selectors, challenges and wires.

use crate::{BlsScalar, Ctx};

pub const SEL: [&str; 11] = [
    "q_m", "q_l", "q_r", "q_o", "q_f", "q_c", "q_arith", "q_range", "q_logic",
    "q_fixed", "q_var",
];
pub const CH: [&str; 4] = ["k_range", "k_logic", "k_fixed", "k_var"];
pub const WIRES: [&str; 7] = ["a", "b", "c", "d", "a_w", "b_w", "d_w"];

pub fn run(ctx: &mut Ctx) {
    let sel: [BlsScalar; 11] = core::array::from_fn(|i| ctx.var(SEL[i]));
    let ch: [BlsScalar; 4] = core::array::from_fn(|i| ctx.var(CH[i]));
    let w: [BlsScalar; 7] = core::array::from_fn(|i| ctx.var(WIRES[i]));
    let r = dusk_plonk::verif::widget_rows(&sel, &ch, &w);
    for (n, v) in ["arith", "range", "logic", "fixed", "var"].iter().zip(r.iter()) {
        ctx.out(n, v);
    }
    ctx.meta.insert(
        "functions".into(),
        serde_json::json!([
            "widget::arithmetic::ProverKey::compute_quotient_i",
            "widget::range::ProverKey::compute_quotient_i",
            "widget::logic::ProverKey::compute_quotient_i",
            "widget::ecc::scalar_mul::fixed_base::ProverKey::compute_quotient_i",
            "widget::ecc::curve_addition::ProverKey::compute_quotient_i"
        ]),
    );
}
