//! Driver library shared by the symbolic (`/verif/sym`, patched dependency)
//! and the real (`/verif/real`, unpatched registry crates) builds.
//!
//! A driver is a function over a `Ctx`.  In the symbolic build `Ctx::var`
//! hands out symbolic scalars and `Ctx::out` records term-node ids; in the
//! real build `Ctx::var` hands out seed-derived concrete scalars and `out`
//! records their values.  The Python side evaluates the symbolic bundle at the
//! real build's variable assignment and demands bit-for-bit agreement with the
//! real build's outputs (translator validation), then hands the terms to the
//! solver.

pub use dusk_bls12_381::BlsScalar;
use serde_json::{json, Value};

/// Counting allocator (replay of allocation-bound counterexamples): records the largest
/// single request; a request above 1 GiB is reported on stderr and the process aborts
/// (the request itself is the observation, serving it would only exhaust the sandbox).
pub mod counting_alloc {
    use std::alloc::{GlobalAlloc, Layout, System};
    use std::sync::atomic::{AtomicUsize, Ordering};
    pub static PEAK_REQUEST: AtomicUsize = AtomicUsize::new(0);
    pub struct Counting;
    unsafe impl GlobalAlloc for Counting {
        unsafe fn alloc(&self, l: Layout) -> *mut u8 {
            PEAK_REQUEST.fetch_max(l.size(), Ordering::Relaxed);
            if l.size() > (1usize << 30) {
                use std::io::Write;
                let mut buf = [0u8; 64];
                let mut n = l.size();
                let mut i = buf.len();
                while n > 0 {
                    i -= 1;
                    buf[i] = b'0' + (n % 10) as u8;
                    n /= 10;
                }
                let mut e = std::io::stderr();
                let _ = e.write_all(b"ALLOC_REQUEST ");
                let _ = e.write_all(&buf[i..]);
                let _ = e.write_all(b"\n");
                std::process::abort();
            }
            System.alloc(l)
        }
        unsafe fn dealloc(&self, p: *mut u8, l: Layout) {
            System.dealloc(p, l)
        }
        unsafe fn realloc(&self, p: *mut u8, l: Layout, new: usize) -> *mut u8 {
            PEAK_REQUEST.fetch_max(new, Ordering::Relaxed);
            System.realloc(p, l, new)
        }
    }
}

pub mod components;
pub mod gadgets;
pub mod kernels;
pub mod protocol;
#[macro_use]
pub mod widths;
pub mod rows;

pub struct Ctx {
    pub seed: u64,
    pub vars: Vec<(String, BlsScalar)>,
    pub outs: Vec<(String, Value)>,
    pub meta: serde_json::Map<String, Value>,
    /// real build only: variable values taken from the file named by
    /// VERIF_ENV (replay of solver models)
    pub env_override: Option<serde_json::Map<String, Value>>,
    /// symbolic build only: VERIF_CONCRETE=1 runs the drivers on concrete
    /// values (replay with a scripted random oracle)
    pub concrete: bool,
    /// do not dump the term arena (large runs that only report derived facts)
    pub deps_only: bool,
}

pub fn splitmix(mut x: u64) -> u64 {
    x = x.wrapping_add(0x9e3779b97f4a7c15);
    let mut z = x;
    z = (z ^ (z >> 30)).wrapping_mul(0xbf58476d1ce4e5b9);
    z = (z ^ (z >> 27)).wrapping_mul(0x94d049bb133111eb);
    z ^ (z >> 31)
}

pub fn concrete_from_name(seed: u64, name: &str) -> BlsScalar {
    let mut h = splitmix(seed ^ 0x7265616c5f766172);
    for b in name.as_bytes() {
        h = splitmix(h ^ (*b as u64));
    }
    let mut bytes = [0u8; 64];
    for c in bytes.chunks_mut(8) {
        h = splitmix(h);
        c.copy_from_slice(&h.to_le_bytes());
    }
    BlsScalar::from_bytes_wide(&bytes)
}

pub fn hex(s: &BlsScalar) -> String {
    let b = s.to_bytes();
    let mut o = String::with_capacity(64);
    for x in b.iter().rev() {
        o.push_str(&format!("{:02x}", x));
    }
    o
}

pub fn from_hex(h: &str) -> BlsScalar {
    // big-endian hex of a canonical value (reduced mod r if larger)
    let h = h.trim_start_matches("0x");
    let mut wide = [0u8; 64];
    let bytes: Vec<u8> = (0..h.len() / 2)
        .map(|i| u8::from_str_radix(&h[2 * i..2 * i + 2], 16).unwrap())
        .collect();
    for (i, b) in bytes.iter().rev().enumerate() {
        wide[i] = *b;
    }
    BlsScalar::from_bytes_wide(&wide)
}

impl Ctx {
    pub fn new(seed: u64) -> Self {
        #[cfg(feature = "sym")]
        {
            dusk_bls12_381::sym::reset(seed);
            if let Some(d) = std::env::var("VERIF_FLIP_DEPTH").ok().and_then(|s| s.parse().ok()) {
                dusk_bls12_381::sym::set_flip_depth(d);
            }
        }
        let env_override = std::env::var("VERIF_ENV").ok().map(|p| {
            let t = std::fs::read_to_string(&p).expect("VERIF_ENV file");
            match serde_json::from_str::<Value>(&t).expect("VERIF_ENV json") {
                Value::Object(m) => m,
                _ => panic!("VERIF_ENV must be an object"),
            }
        });
        let concrete = cfg!(not(feature = "sym")) || std::env::var("VERIF_CONCRETE").is_ok();
        Ctx { seed, vars: vec![], outs: vec![], meta: Default::default(), env_override, concrete, deps_only: false }
    }

    /// a free variable
    pub fn var(&mut self, name: &str) -> BlsScalar {
        if let Some((_, v)) = self.vars.iter().find(|(n, _)| n == name) {
            return *v;
        }
        let conc = |s_: &Self| match &s_.env_override {
            Some(m) => match m.get(name) {
                Some(Value::String(h)) => from_hex(h),
                _ => concrete_from_name(s_.seed, name),
            },
            None => concrete_from_name(s_.seed, name),
        };
        #[cfg(feature = "sym")]
        let v = if self.concrete { conc(self) } else { dusk_bls12_381::sym::var(name) };
        #[cfg(not(feature = "sym"))]
        let v = conc(self);
        self.vars.push((name.to_string(), v));
        v
    }

    pub fn scalar_json(&self, s: &BlsScalar) -> Value {
        #[cfg(feature = "sym")]
        {
            if self.concrete {
                return json!(hex(s));
            }
            json!(dusk_bls12_381::sym::id_of(s))
        }
        #[cfg(not(feature = "sym"))]
        {
            json!(hex(s))
        }
    }

    pub fn out(&mut self, name: &str, s: &BlsScalar) {
        let v = self.scalar_json(s);
        self.outs.push((name.to_string(), v));
    }

    pub fn out_json(&mut self, name: &str, v: Value) {
        self.outs.push((name.to_string(), v));
    }

    pub fn finish(self) -> Value {
        let mut o = serde_json::Map::new();
        #[cfg(feature = "sym")]
        if self.concrete {
            o.insert("mode".into(), json!("sym-build-concrete"));
            let env: serde_json::Map<String, Value> =
                self.vars.iter().map(|(n, v)| (n.clone(), json!(hex(v)))).collect();
            o.insert("env".into(), Value::Object(env));
        } else {
            o.insert("mode".into(), json!("sym"));
            if !self.deps_only {
                let nodes: Value =
                    serde_json::from_str(&dusk_bls12_381::sym::dump_nodes_json()).unwrap();
                o.insert("nodes".into(), nodes);
            }
        }
        #[cfg(not(feature = "sym"))]
        {
            o.insert("mode".into(), json!("real"));
            let env: serde_json::Map<String, Value> =
                self.vars.iter().map(|(n, v)| (n.clone(), json!(hex(v)))).collect();
            o.insert("env".into(), Value::Object(env));
        }
        o.insert("seed".into(), json!(self.seed));
        let outs: serde_json::Map<String, Value> = self.outs.into_iter().collect();
        o.insert("outputs".into(), Value::Object(outs));
        o.insert("meta".into(), Value::Object(self.meta));
        Value::Object(o)
    }
}

#[cfg(feature = "sym")]
pub fn path_json(p: &[dusk_bls12_381::sym::PathCond]) -> Value {
    serde_json::from_str(&dusk_bls12_381::sym::path_json(p)).unwrap()
}


/// put a marker into the path-condition stream (symbolic build): a forced
/// condition `marker == marker` is not possible, so markers are logged as events
pub fn mark(name: &str) {
    #[cfg(feature = "sym")]
    {
        let (_t, path) = dusk_bls12_381::sym::end_run();
        dusk_bls12_381::sym::log_event(format!("{{\"mark\":\"{}\",\"at\":{}}}", name, path.len()));
    }
    #[cfg(not(feature = "sym"))]
    let _ = name;
}
