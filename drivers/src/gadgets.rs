//! Gadget extraction: run real composer components (concretely) and dump the
//! emitted gates.
