//! Gadget extraction: run real composer components on concrete witnesses
//! (seed-derived or supplied through VERIF_ENV) and dump the emitted gates.

use dusk_plonk::prelude::*;
use serde_json::{json, Value};

use crate::{hex, BlsScalar, Ctx};

pub fn snapshot_json(c: &Composer) -> Value {
    let (gates, wit, pis) = c.verif_snapshot();
    let g: Vec<Value> = gates
        .iter()
        .map(|(s, w)| json!([s.iter().map(hex).collect::<Vec<_>>(), w.to_vec()]))
        .collect();
    json!({
        "gates": g,
        "witnesses": wit.iter().map(hex).collect::<Vec<_>>(),
        "pis": pis.iter().map(|(r, v)| json!([r, hex(v)])).collect::<Vec<_>>(),
        // copy-constraint classes as registered in the permutation (witness -> wire positions)
        "perm": c.verif_permutation_positions().iter().map(|(w, p)| json!([w, p.iter().map(|(c_, r)| json!([c_, r])).collect::<Vec<_>>()])).collect::<Vec<_>>(),
    })
}

macro_rules! with_width {
    ($w:expr, 127, |$N:ident| $body:expr) => {
        crate::dispatch_const_127!($w, |$N| $body)
    };
    ($w:expr, 254, |$N:ident| $body:expr) => {
        crate::dispatch_const_254!($w, |$N| $body)
    };
    ($w:expr, 256, |$N:ident| $body:expr) => {
        crate::dispatch_const_256!($w, |$N| $body)
    };
}

pub type Named = serde_json::Map<String, Value>;

/// Build one gadget on `c`.  `val(name)` supplies the input witness values.
pub fn build_gadget(
    c: &mut Composer,
    args: &[String],
    val: &mut dyn FnMut(&str) -> BlsScalar,
) -> (Named, Named) {
    let g = args[0].as_str();
    let p = |i: usize| -> usize { args[i].parse().expect("numeric parameter") };
    let mut inputs = serde_json::Map::new();
    let mut returned = serde_json::Map::new();
    let mut inp = |c: &mut Composer, name: &str| -> Witness {
        let v = val(name);
        let w = c.append_witness(v);
        inputs.insert(name.to_string(), json!(w.index()));
        w
    };
    match g {
        "range_bits" => {
            let w = p(1);
            let x = inp(c, "x");
            with_width!(w, 256, |N| c.component_range_bits::<N>(x));
        }
        "range_pairs" => {
            let w = p(1);
            let x = inp(c, "x");
            #[allow(deprecated)]
            {
                with_width!(w, 256, |N| c.component_range::<N>(x));
            }
        }
        "logic" => {
            let xor = args[1] == "xor";
            let w = p(2);
            let a = inp(c, "a");
            let b = inp(c, "b");
            let r = if xor {
                with_width!(w, 127, |N| c.append_logic_xor::<N>(a, b))
            } else {
                with_width!(w, 127, |N| c.append_logic_and::<N>(a, b))
            };
            returned.insert("out".into(), json!(r.index()));
        }
        "truncate" => {
            let w = p(1);
            let x = inp(c, "x");
            let r = with_width!(w, 254, |N| c.component_truncate::<N>(x));
            returned.insert("out".into(), json!(r.index()));
        }
        "decomposition" => {
            let w = p(1);
            let x = inp(c, "x");
            let r: Vec<usize> = with_width!(w, 256, |N| {
                if N == 0 {
                    panic!("N must be > 0")
                } else {
                    c.component_decomposition::<N>(x).iter().map(|w| w.index()).collect()
                }
            });
            returned.insert("bits".into(), json!(r));
        }
        "mul_generator" | "fixed_digits" => {
            // fixed-base multiplication; generator = [k]G_standard (k = args[1], default 1; k = "nums"
            // selects the second standard generator); the scalar is the input.  `fixed_digits`
            // goes through the seam with an all-zero digit vector (same rows for any scalar value).
            let sc = inp(c, "s");
            let generator = match args.get(1).map(|x| x.as_str()) {
                None | Some("1") => dusk_jubjub::GENERATOR_EXTENDED,
                Some("nums") => dusk_jubjub::GENERATOR_NUMS_EXTENDED,
                Some(k) => dusk_jubjub::GENERATOR_EXTENDED * dusk_jubjub::JubJubScalar::from(k.parse::<u64>().expect("k")),
            };
            let ga = dusk_jubjub::JubJubAffine::from(generator);
            returned.insert("gen".into(), json!([hex(&ga.get_u()), hex(&ga.get_v())]));
            let r = if g == "fixed_digits" {
                c.verif_fixed_base_signed_digits(sc, generator, &[0i8; 256]).map(|p| (p.x().index(), p.y().index()))
            } else {
                c.component_mul_generator(sc, generator).map(|p| (p.x().index(), p.y().index()))
            };
            match r {
                Ok((x, y)) => {
                    returned.insert("out".into(), json!([x, y]));
                }
                Err(e) => {
                    returned.insert("error".into(), json!(format!("{:?}", e)));
                }
            }
        }
        "mul_point" => {
            // concrete subgroup point and scalar (shape extraction)
            let s = inp(c, "s");
            let gen = dusk_jubjub::GENERATOR_EXTENDED * dusk_jubjub::JubJubScalar::from(7u64);
            let aff = dusk_jubjub::JubJubAffine::from(gen);
            let x = c.append_witness(aff.get_u());
            let y = c.append_witness(aff.get_v());
            inputs.insert("px".into(), json!(x.index()));
            inputs.insert("py".into(), json!(y.index()));
            let p = TorsionFreeWitnessPoint::new_unchecked(Composer::verif_witness_point(x, y));
            let r = c.component_mul_point(s, p);
            returned.insert("out".into(), json!([r.x().index(), r.y().index()]));
        }
        _ => panic!("unknown gadget {g}"),
    }
    (inputs, returned)
}

/// `extract <gadget> <params..>`
pub fn run(ctx: &mut Ctx, args: &[String]) {
    let mut c = Composer::initialized();
    let init_rows = c.constraints();
    let init_wit = c.verif_snapshot().1.len();
    let (inputs, returned) = build_gadget(&mut c, args, &mut |n| ctx.var(n));
    let mut s = snapshot_json(&c);
    let o = s.as_object_mut().unwrap();
    o.insert("inputs".into(), Value::Object(inputs));
    o.insert("returned".into(), Value::Object(returned));
    o.insert("init_rows".into(), json!(init_rows));
    o.insert("init_witnesses".into(), json!(init_wit));
    ctx.out_json("layout", s);
}

/// `extract_batch <gadget> <lo> <hi> [extra..]`: one layout per width in lo..=hi
/// (`extra` args are inserted before the width, e.g. `logic xor`).
pub fn run_batch(ctx: &mut Ctx, args: &[String]) {
    let g = args[0].clone();
    let lo: usize = args[1].parse().unwrap();
    let hi: usize = args[2].parse().unwrap();
    let extra: Vec<String> = args[3..].to_vec();
    let mut all = vec![];
    for w in lo..=hi {
        let mut a = vec![g.clone()];
        a.extend(extra.iter().cloned());
        a.push(w.to_string());
        let mut c = Composer::initialized();
        let init_rows = c.constraints();
        let (inputs, returned) = build_gadget(&mut c, &a, &mut |n| ctx.var(n));
        let mut s = snapshot_json(&c);
        let o = s.as_object_mut().unwrap();
        o.insert("inputs".into(), Value::Object(inputs));
        o.insert("returned".into(), Value::Object(returned));
        o.insert("init_rows".into(), json!(init_rows));
        o.insert("width".into(), json!(w));
        all.push(s);
    }
    ctx.out_json("layouts", Value::Array(all));
}

/// Deterministic RNG for replays (not cryptographic; replay only).
pub struct ReplayRng(pub u64);
impl rand_core::RngCore for ReplayRng {
    fn next_u32(&mut self) -> u32 {
        self.next_u64() as u32
    }
    fn next_u64(&mut self) -> u64 {
        self.0 = crate::splitmix(self.0);
        self.0
    }
    fn fill_bytes(&mut self, dest: &mut [u8]) {
        for ch in dest.chunks_mut(8) {
            let v = self.next_u64().to_le_bytes();
            ch.copy_from_slice(&v[..ch.len()]);
        }
    }
    fn try_fill_bytes(&mut self, dest: &mut [u8]) -> Result<(), rand_core::Error> {
        self.fill_bytes(dest);
        Ok(())
    }
}
impl rand_core::CryptoRng for ReplayRng {}

/// A circuit that builds one gadget and then overrides witnesses.
#[derive(Default, Clone)]
pub struct GadgetCircuit {
    pub args: Vec<String>,
    pub inputs: Vec<(String, BlsScalar)>,
    pub overrides: Vec<(usize, BlsScalar)>,
}

impl Circuit for GadgetCircuit {
    fn circuit(&self, c: &mut Composer) -> Result<(), Error> {
        let inputs = self.inputs.clone();
        build_gadget(c, &self.args, &mut |n| {
            inputs.iter().find(|(k, _)| k == n).map(|(_, v)| *v).unwrap_or(BlsScalar::zero())
        });
        for (i, v) in &self.overrides {
            c.verif_set_witness(Composer::verif_witness(*i), *v);
        }
        Ok(())
    }
}

/// `prove_gadget <gadget> <params..>`: replay of a gadget-soundness model.
/// Variables `w<i>` of the environment override witness i; the real
/// compiler, prover and verifier are run end to end.
pub fn prove(ctx: &mut Ctx, args: &[String]) {
    let honest = GadgetCircuit { args: args.to_vec(), inputs: vec![], overrides: vec![] };
    let mut forged = honest.clone();
    if let Some(env) = ctx.env_override.clone() {
        for (k, v) in env.iter() {
            if let (Some(idx), Value::String(h)) = (k.strip_prefix('w'), v) {
                if let Ok(i) = idx.parse::<usize>() {
                    forged.overrides.push((i, crate::from_hex(h)));
                }
            }
        }
    }
    let mut probe = Composer::initialized();
    honest.circuit(&mut probe).unwrap();
    let n = probe.constraints();
    let mut rng = ReplayRng(ctx.seed ^ 0x5eed);
    let pp = PublicParameters::setup((n + 8).next_power_of_two() + 8, &mut rng).expect("setup");
    let (prover, verifier) =
        Compiler::compile_with_circuit(&pp, b"verif-replay", &honest).expect("compile");
    match prover.prove(&mut rng, &forged) {
        Ok((proof, pis)) => {
            ctx.out_json("proved", json!(true));
            let v = verifier.verify(&proof, &pis);
            ctx.out_json("verified", json!(v.is_ok()));
            ctx.out_json("error", json!(format!("{:?}", v.err())));
        }
        Err(e) => {
            ctx.out_json("proved", json!(false));
            ctx.out_json("verified", json!(false));
            ctx.out_json("error", json!(format!("{:?}", e)));
        }
    }
}
